"""Run operations against the real build through an overlay test driver (nothing is written into /repo)."""
import json
import os
import subprocess
import tempfile

HARNESS = os.path.join(os.path.dirname(os.path.dirname(os.path.abspath(__file__))), 'harness')
GOENV = dict(os.environ, GOFLAGS='-mod=mod', GOPROXY='off', GOSUMDB='off', GOTOOLCHAIN='local')

DRIVERS = {
    'secec': ('secec', 'secec_native_test.go'),
    'bitcoin': ('secec/bitcoin', 'bitcoin_native_test.go'),
    'root': ('.', 'root_native_test.go'),
    'field': ('internal/field', 'field_native_test.go'),
    'h2c': ('secec/h2c', 'h2c_native_test.go'),
}


def run(pkg, cases, workdir, repo='/repo', tags='', timeout=600):
    rel, fname = DRIVERS[pkg]
    d = tempfile.mkdtemp(dir=workdir)
    inp, outp, ov = os.path.join(d, 'in.json'), os.path.join(d, 'out.json'), os.path.join(d, 'overlay.json')
    json.dump(cases, open(inp, 'w'))
    json.dump({'Replace': {os.path.join(repo, rel, 'zz_verifnative_test.go'): os.path.join(HARNESS, fname)}}, open(ov, 'w'))
    cmd = ['go', 'test', '-vet=off', '-count=1', '-overlay', ov, '-run', '^TestZZVerifNative$']
    if tags:
        cmd += ['-tags', tags]
    cmd.append('./' + rel)
    env = dict(GOENV, VERIF_NATIVE_IN=inp, VERIF_NATIVE_OUT=outp)
    p = subprocess.run(cmd, cwd=repo, env=env, stdout=subprocess.PIPE, stderr=subprocess.STDOUT, text=True, timeout=timeout)
    if p.returncode != 0 or not os.path.exists(outp):
        raise RuntimeError("native driver failed:\n" + p.stdout[-3000:])
    return json.load(open(outp))
