"""Go builtins, math/bits intrinsics and trusted stdlib stubs for the executor."""
from . import term as tm
from .term import T
from . import ssaexec as X


def install(m):
    m.builtin = lambda name, args, c, I: _builtin(m, name, args, c, I)
    m.index_term = lambda e, s: e
    m.array_view = lambda s, n: _array_view(m, s, n)
    m.slice_to_string = lambda s: _slice_to_string(m, s)
    m.slice_elems = lambda s: _slice_elems(m, s)
    m.bytes_of = lambda s: _slice_elems(m, s)
    m.new_byte_slice = lambda data, label='': _new_byte_slice(m, data, label)
    C = m.contracts
    C['math/bits.Add64'] = lambda m, a: tm.add64(a[0], a[1], a[2])
    C['math/bits.Sub64'] = lambda m, a: tm.sub64(a[0], a[1], a[2])
    C['math/bits.Mul64'] = lambda m, a: tm.mul64(a[0], a[1])
    C['errors.New'] = _errors_new
    C['fmt.Errorf'] = _fmt_errorf
    C['errors.Is'] = _errors_is
    C['bytes.Equal'] = _bytes_equal
    C['crypto/subtle.XORBytes'] = _xorbytes
    C['bytes.Clone'] = _bytes_clone
    C['bytes.Repeat'] = _bytes_repeat
    C['bytes.Compare'] = _bytes_compare
    for w in (8, 16, 32, 64):
        sfx = str(w)
        C['math/bits.LeadingZeros' + sfx] = (lambda w: lambda m, a: _clz(a[0], w))(w)
        C['math/bits.Len' + sfx] = (lambda w: lambda m, a: tm.bv('sub', w, _clz(a[0], w), 64))(w)
        C['math/bits.TrailingZeros' + sfx] = (lambda w: lambda m, a: _ctz(a[0], w))(w)
        C['math/bits.OnesCount' + sfx] = (lambda w: lambda m, a: _popcnt(a[0], w))(w)
    C['math/bits.LeadingZeros'] = lambda m, a: _clz(a[0], 64)
    C['math/bits.Len'] = lambda m, a: tm.bv('sub', 64, _clz(a[0], 64), 64)
    C['math/bits.TrailingZeros'] = lambda m, a: _ctz(a[0], 64)
    C['math/bits.OnesCount'] = lambda m, a: _popcnt(a[0], 64)
    C['math/bits.ReverseBytes64'] = lambda m, a: _revbytes(a[0], 64)
    C['math/bits.ReverseBytes32'] = lambda m, a: _revbytes(a[0], 32)
    C['math/bits.RotateLeft64'] = lambda m, a: _rotl(m, a[0], a[1], 64)
    C['math/bits.RotateLeft32'] = lambda m, a: _rotl(m, a[0], a[1], 32)
    C['bytes.HasPrefix'] = lambda m, a: _has_prefix(m, a[0], a[1])
    _install_env(m)


# -------------------------------------------------------------- environment: sync, crypto/rand (sequential semantics)
class FreshReader:
    """crypto/rand.Reader: every Read fills the whole buffer with fresh arbitrary bytes and never fails (documented contract of the
    system CSPRNG on the supported platforms); the bytes are new symbolic variables, so nothing may depend on their value"""
    counter = 0

    def __init__(self, name='csrand'):
        self.name = name

    def go_has(self, mn):
        return mn == 'Read'

    def fill(self, m, b):
        b = concretize_slice(m, b)
        for i in range(b.len):
            FreshReader.counter += 1
            m.store(_elem_ptr(b, i), tm.var('%s_%d' % (self.name, FreshReader.counter), 8))
        return b.len

    def go_invoke(self, m, mn, args):
        if mn != 'Read':
            raise X.Unsupported("crypto/rand.Reader method " + mn)
        return (self.fill(m, args[0]), None)


def _install_env(m):
    C = m.contracts
    # One symbolic run is one goroutine: locks are always free.  (Whether unlocked accesses to shared state exist is C20's question and is
    # answered by the write-set monitor, which sees the stores these locks protect.)
    for t in ('Mutex', 'RWMutex'):
        for mn in ('Lock', 'Unlock', 'RLock', 'RUnlock'):
            C['(*sync.%s).%s' % (t, mn)] = lambda m, a: None
        C['(*sync.%s).TryLock' % t] = lambda m, a: True
    done = m.__dict__.setdefault('_once_done', set())

    def once_do(m, a):
        o = a[0].obj
        key = (o.id, a[0].path)
        if key not in done:
            done.add(key)
            m.call_value(a[1], [])
        return None
    C['(*sync.Once).Do'] = once_do
    pools = m.__dict__.setdefault('_pools', {})

    def pool_get(m, a):
        # sequential model: a pool hands back what was put, newest first, else calls New (the runtime may also drop items at any
        # time, which only makes Get call New more often)
        key = (a[0].obj.id, a[0].path)
        items = pools.setdefault(key, [])
        if items:
            return items.pop()
        pool = m.load(a[0])
        newf = pool[-1]   # struct sync.Pool{noCopy, local, localSize, victim, victimSize, New}
        if newf is None:
            return None
        return m.call_value(newf, [])

    def pool_put(m, a):
        if a[1] is None:
            return None
        key = (a[0].obj.id, a[0].path)
        pools.setdefault(key, []).append(a[1])
        m.__dict__.setdefault('pool_puts', []).append((key, a[1]))
        return None
    C['(*sync.Pool).Get'] = pool_get
    C['(*sync.Pool).Put'] = pool_put
    m.global_init.setdefault('crypto/rand.Reader', lambda mm: X.Iface('stub.csrand', FreshReader()))

    def rand_read(m, a):
        return (FreshReader().fill(m, a[0]), None)
    C['crypto/rand.Read'] = rand_read


# -------------------------------------------------------------- windows / views
def concretize_slice(m, s):
    """make offset/len/cap of a slice concrete (forks over feasible values)"""
    if s is None or s.obj is None:
        return s
    off, ln, cp = s.off, s.len, s.cap
    if isinstance(ln, T):
        ln = m.ctx.concretize(ln, 64, 'slice len')
    if isinstance(off, T):
        off = m.ctx.concretize(off, 64, 'slice off')
    if isinstance(cp, T):
        cp = m.ctx.concretize(cp, 64, 'slice cap')
    if off is s.off and ln is s.len and cp is s.cap:
        return s
    return X.Slice(s.obj, s.path, off, ln, cp)


def _array_view(m, s, n):
    """*[n]T view of slice s (len already checked)"""
    s = concretize_slice(m, s)
    off = s.off
    # whole underlying array?
    node = m._load(s.obj.tree, s.path, 0)
    if off == 0 and len(node) == n:
        return X.Ptr(s.obj, s.path)
    if s.path and isinstance(s.path[-1], tuple):
        # a view of (a slice of) a view: windows compose
        _, off0, _n0 = s.path[-1]
        return X.Ptr(s.obj, s.path[:-1] + (('win', off0 + off, n),))
    return X.Ptr(s.obj, s.path + (('win', off, n),))


def _elem_ptr(s, i):
    return X.Ptr(s.obj, s.path + (tm.bv('add', s.off, i, 64),))


def _slice_elems(m, s):
    if isinstance(s, str):
        return [ord(c) for c in s]
    if isinstance(s, (bytes, bytearray)):
        return list(s)
    if s.obj is None:
        return []
    if isinstance(s.len, T) or isinstance(s.off, T):
        s = concretize_slice(m, s)
    node = m._load(s.obj.tree, s.path, 0)
    if isinstance(node, list) and not (s.path and isinstance(s.path[-1], tuple)):
        return [m._copy_out(v) for v in node[s.off:s.off + s.len]]
    return [m.load(_elem_ptr(s, i)) for i in range(s.len)]


def _new_byte_slice(m, data, label=''):
    o = m.new_obj(None, tree=list(data), label=label)
    return X.Slice(o, (), 0, len(data), len(data))


def _slice_to_string(m, s):
    el = _slice_elems(m, s)
    if any(isinstance(e, T) for e in el):
        return SymString(el)
    return ''.join(chr(e) for e in el)


class SymString:
    """string with symbolic bytes (only produced by string(bytes)); supports len/index/compare via contracts"""

    def __init__(self, el):
        self.el = el

    def __len__(self):
        return len(self.el)


# -------------------------------------------------------------- builtins
def _builtin(m, name, args, c, I):
    if name == 'len':
        x = args[0]
        if isinstance(x, X.Slice):
            return x.len
        if isinstance(x, (str, SymString)):
            return len(x)
        if isinstance(x, X.GoMap):
            return len(x.d)
        if x is None:
            return 0
        raise X.Unsupported("len of %r" % (x,))
    if name == 'cap':
        return args[0].cap
    if name == 'copy':
        dst, src = args
        dst = concretize_slice(m, dst)
        if isinstance(src, X.Slice):
            src = concretize_slice(m, src)
        sl = len(src) if isinstance(src, (str, SymString)) else src.len
        n = min(dst.len, sl)
        if n == 0:
            return 0
        if isinstance(src, str):
            vals = [ord(ch) for ch in src[:n]]
        elif isinstance(src, SymString):
            vals = src.el[:n]
        else:
            vals = _slice_elems(m, X.Slice(src.obj, src.path, src.off, n, n))
        for i in range(n):
            m.store(_elem_ptr(dst, i), vals[i])
        return n
    if name == 'append':
        s, t = args
        if isinstance(s, X.Slice):
            s = concretize_slice(m, s)
        if isinstance(t, X.Slice):
            t = concretize_slice(m, t)
        if isinstance(t, str):
            tv = [ord(ch) for ch in t]
        elif isinstance(t, SymString):
            tv = list(t.el)
        elif t is None or t.obj is None:
            tv = []
        else:
            tv = _slice_elems(m, t)
        if not tv:
            return s
        sl = s.len if s is not None else 0
        sc = s.cap if s is not None else 0
        need = sl + len(tv)
        if s is not None and s.obj is not None and need <= sc:
            r = X.Slice(s.obj, s.path, s.off, need, sc)
            for i, v in enumerate(tv):
                m.store(_elem_ptr(r, sl + i), v)
            return r
        old = _slice_elems(m, s) if (s is not None and s.obj is not None) else []
        newcap = max(need, 2 * sc)
        et = m.prog.under(I['t'])['elem']
        tree = [m._copy_in(v) for v in old] + [m._copy_in(v) for v in tv] + [m.zero(et) for _ in range(newcap - need)]
        o = m.new_obj(None, tree=tree, label='append@%s' % I.get('pos'))
        return X.Slice(o, (), 0, need, newcap)
    if name in ('min', 'max'):
        t = m.prog.under(I['t'])
        w, signed = t['bits'], t['signed']
        r = args[0]
        for a in args[1:]:
            lt = (tm.slt if signed else tm.ult)(a, r, w)
            if name == 'max':
                lt = (tm.slt if signed else tm.ult)(r, a, w)
            r = tm.ite(lt, a, r, w)
        return r
    if name in ('print', 'println'):
        return None
    if name == 'recover':
        if m.panic_stack and m.panic_stack[-1] is not None:
            p = m.panic_stack[-1]
            m.panic_stack[-1] = None
            v = p.value
            return v if isinstance(v, X.Iface) else X.Iface('string', str(v))
        return None
    if name == 'ssa:wrapnilchk':
        if args[0].obj is None:
            raise X.GoPanic("value method called using nil pointer")
        return args[0]
    if name == 'clear':
        raise X.Unsupported("clear")
    raise X.Unsupported("builtin %s" % name)


# -------------------------------------------------------------- stdlib stubs (trusted)
class ErrObj:
    """payload of an error object created by errors.New / fmt.Errorf"""
    __slots__ = ('msg', 'wrapped')

    def __init__(self, msg, wrapped=()):
        self.msg = msg
        self.wrapped = wrapped

    def __repr__(self):
        return 'Err(%s)' % self.msg


def make_error(m, msg, wrapped=()):
    o = m.new_obj(None, tree=[ErrObj(msg, wrapped)], label='error:' + msg)
    return X.Iface('*errors.errorString', X.Ptr(o, ()))


def _errors_new(m, a):
    return make_error(m, a[0])


def _fmt_errorf(m, a):
    fmtstr = a[0]
    wrapped = []
    va = a[1]
    if va is not None and va.obj is not None:
        for v in _slice_elems(m, va):
            if isinstance(v, X.Iface) and v.tname.startswith('*errors.') or (isinstance(v, X.Iface) and v.tname == '*fmt.wrapError'):
                wrapped.append(v)
    o = m.new_obj(None, tree=[ErrObj('fmt:' + fmtstr, tuple(wrapped))], label='error:fmt')
    return X.Iface('*fmt.wrapError', X.Ptr(o, ()))


def _errors_is(m, a):
    """errors.Is over the error objects of this model: identity of the error value, or of any error it wraps (errors.New /
    fmt.Errorf %w chains, package-level sentinel errors from the globals dump)"""
    err, target = a

    def same(x, y):
        if x is None or y is None:
            return x is None and y is None
        if not (isinstance(x, X.Iface) and isinstance(y, X.Iface)) or x.tname != y.tname:
            return False
        vx, vy = x.val, y.val
        if isinstance(vx, X.Ptr) and isinstance(vy, X.Ptr):
            return vx.obj is vy.obj and vx.path == vy.path
        return vx is vy

    def walk(e, depth=0):
        if e is None or depth > 16:
            return False
        if same(e, target):
            return True
        v = e.val if isinstance(e, X.Iface) else None
        if isinstance(v, X.Ptr) and v.obj is not None and isinstance(v.obj.tree, list) and v.obj.tree and isinstance(v.obj.tree[0], ErrObj):
            return any(walk(w, depth + 1) for w in v.obj.tree[0].wrapped)
        return False
    if target is None:
        return err is None
    return walk(err)


def _bytes_equal(m, a):
    x, y = a
    if isinstance(x.len, T) or isinstance(y.len, T):
        x, y = concretize_slice(m, x), concretize_slice(m, y)
    xe, ye = _slice_elems(m, x), _slice_elems(m, y)
    if len(xe) != len(ye):
        return False
    r = True
    for p, q in zip(xe, ye):
        r = tm.band(r, tm.eq(p, q, 8))
    return r


def _xorbytes(m, a):
    dst, x, y = [concretize_slice(m, v) for v in a]
    n = min(x.len, y.len)
    if n == 0:
        return 0
    if dst.len < n:
        raise X.GoPanic("subtle.XORBytes: dst too short")
    xe, ye = _slice_elems(m, x), _slice_elems(m, y)
    for i in range(n):
        m.store(_elem_ptr(dst, i), tm.bv('xor', xe[i], ye[i], 8))
    return n


def _bytes_clone(m, a):
    b = a[0]
    if b is None or b.obj is None:
        return X.NILSLICE
    return _new_byte_slice(m, _slice_elems(m, b), 'bytes.Clone')


def _bytes_repeat(m, a):
    b, n = a
    el = _slice_elems(m, b)
    if isinstance(n, T):
        raise X.Unsupported("bytes.Repeat symbolic count")
    return _new_byte_slice(m, el * n, 'bytes.Repeat')


def _clz(x, w):
    """count leading zeros of a w-bit value -> 64-bit int term"""
    if not isinstance(x, T):
        return w - x.bit_length()
    r = w  # value when x == 0
    for i in range(w):  # bit i set and all higher clear -> w-1-i ; build from low bit upwards
        r = tm.ite(tm.eq(tm.extract(x, i, i), 1, 1), w - 1 - i, r, 64)
    return r


def _ctz(x, w):
    if not isinstance(x, T):
        return w if x == 0 else (x & -x).bit_length() - 1
    r = w
    for i in range(w - 1, -1, -1):
        r = tm.ite(tm.eq(tm.extract(x, i, i), 1, 1), i, r, 64)
    return r


def _popcnt(x, w):
    if not isinstance(x, T):
        return bin(x).count('1')
    r = 0
    for i in range(w):
        r = tm.bv('add', r, tm.zext(tm.extract(x, i, i), 64), 64)
    return r


def _revbytes(x, w):
    if not isinstance(x, T):
        return int.from_bytes(x.to_bytes(w // 8, 'big'), 'little')
    r = tm.extract(x, 7, 0)
    for i in range(1, w // 8):
        r = tm.concat(r, tm.extract(x, 8 * i + 7, 8 * i), 8)
    return r


def _rotl(m, x, k, w):
    if isinstance(k, T):
        k = m.ctx.concretize(k, 64, 'rotate count')
    if k >= 1 << 63:
        k -= 1 << 64
    k %= w
    if k == 0:
        return x
    return tm.bv('or', tm.bv('shl', x, k, w), tm.bv('lshr', x, w - k, w), w)


def _bytes_compare(m, a):
    x, y = concretize_slice(m, a[0]), concretize_slice(m, a[1])
    xe, ye = _slice_elems(m, x) if x is not None else [], _slice_elems(m, y) if y is not None else []
    n = min(len(xe), len(ye))
    NEG = (1 << 64) - 1
    r = 0 if len(xe) == len(ye) else (NEG if len(xe) < len(ye) else 1)
    for i in range(n - 1, -1, -1):
        r = tm.ite(tm.eq(xe[i], ye[i], 8), r, tm.ite(tm.ult(xe[i], ye[i], 8), NEG, 1, 64), 64)
    return r


def _has_prefix(m, s, p):
    s, p = concretize_slice(m, s), concretize_slice(m, p)
    se, pe = _slice_elems(m, s), _slice_elems(m, p)
    if len(pe) > len(se):
        return False
    r = True
    for u, v in zip(se, pe):
        r = tm.band(r, tm.eq(u, v, 8))
    return r
