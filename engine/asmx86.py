"""A small symbolic interpreter for the Plan 9 amd64 assembly used by the table lookups
(point_mul_table_amd64.s).  Registers hold ints/terms; memory operands are resolved against one flat
object (a list of 64-bit words with a word-offset map derived from go/types sizes)."""
import re
from . import term as tm
from .term import T


class AsmError(Exception):
    pass


class AsmFault(Exception):
    """a condition under which the real CPU would fault or touch memory outside the operands"""

    def __init__(self, msg, cond=True):
        Exception.__init__(self, msg)
        self.cond = cond


GPR = {'AX', 'BX', 'CX', 'DX', 'SI', 'DI', 'BP', 'R8', 'R9', 'R10', 'R11', 'R12', 'R13', 'R14', 'R15'}


def parse(text):
    """returns dict name -> list of (label|None, mnemonic, [operands])"""
    funcs = {}
    cur = None
    for raw in text.split('\n'):
        line = raw.split('//')[0].strip()
        if not line or line.startswith('#'):
            continue
        m = re.match(r'TEXT\s+·(\w+)\(SB\)', line)
        if m:
            cur = []
            funcs[m.group(1)] = cur
            continue
        if cur is None:
            continue
        m = re.match(r'^(\w+):$', line)
        if m:
            cur.append((m.group(1), None, []))
            continue
        parts = line.split(None, 1)
        mn = parts[0]
        ops = [o.strip() for o in parts[1].split(',')] if len(parts) > 1 else []
        cur.append((None, mn, ops))
    return funcs


class Region:
    """a memory region addressed by a pointer argument: words[i] is the 64-bit word at byte offset 8*i;
    writable[i] tells whether the word is part of the allowed footprint"""

    def __init__(self, name, words, nbytes, align_var=None):
        self.name = name
        self.words = list(words)
        self.nbytes = nbytes
        self.written = set()
        self.align = align_var  # symbolic base address (64-bit term), known multiple of 8


class Machine:
    def __init__(self, args, regions, faults):
        self.r = {}
        self.x = {}
        self.args = args  # name -> value (int/T) or ('ptr', region, byteoff)
        self.regions = regions
        self.cmp = None
        self.steps = 0
        self.faults = faults  # list collecting (description, condition-term) that must be impossible

    def gpr(self, n):
        if n not in self.r:
            raise AsmError("read of uninitialised register %s" % n)
        return self.r[n]

    def xmm(self, n):
        if n not in self.x:
            raise AsmError("read of uninitialised register %s" % n)
        return self.x[n]

    def mem_addr(self, op):
        m = re.match(r'^(-?(?:0x[0-9a-fA-F]+|\d+))?\((\w+)\)$', op)
        if not m:
            raise AsmError("unsupported memory operand %s" % op)
        off = int(m.group(1), 0) if m.group(1) else 0
        base = self.gpr(m.group(2))
        if not (isinstance(base, tuple) and base[0] == 'ptr'):
            raise AsmFault("memory access through a non-pointer value in %s" % m.group(2))
        return base[1], base[2] + off

    def load(self, op, nbytes, aligned=False):
        if nbytes != 8:
            raise AsmError("scalar load of %d bytes" % nbytes)
        reg, off = self.mem_addr(op)
        self.check_access(reg, off, nbytes, aligned)
        return reg.words[off // 8]

    def check_access(self, reg, off, nbytes, aligned):
        if off % 8 != 0 or off < 0 or off + nbytes > reg.nbytes:
            raise AsmFault("access of %d bytes at offset %d outside region %s (%d bytes)" % (nbytes, off, reg.name, reg.nbytes))
        if aligned:
            if reg.align is None:
                if off % 16 != 0:
                    raise AsmFault("aligned access at offset %d" % off)
            else:
                addr = tm.bv('add', reg.align, off, 64)
                self.faults.append(('16-byte-aligned access to %s+%d (the Go allocator only guarantees 8)' % (reg.name, off),
                                    tm.bnot(tm.eq(tm.bv('and', addr, 15, 64), 0, 64))))

    def store(self, op, val, nbytes, aligned=False):
        reg, off = self.mem_addr(op)
        self.check_access(reg, off, nbytes, aligned)
        for i in range(nbytes // 8):
            reg.words[off // 8 + i] = tm.extract(val, 64 * i + 63, 64 * i) if isinstance(val, T) else (val >> (64 * i)) & (2 ** 64 - 1)
            reg.written.add(off // 8 + i)


def _w(v):
    return v.w if isinstance(v, T) else None


def cat128(hi, lo):
    return tm.concat_w(hi, 64, lo, 64)


def lanes32(v):
    return [tm.extract(v, 32 * i + 31, 32 * i) if isinstance(v, T) else (v >> (32 * i)) & 0xffffffff for i in range(4)]


def from_lanes32(ls):
    v = ls[3]
    w = 32
    for l in (ls[2], ls[1], ls[0]):
        v = tm.concat_w(v, w, l, 32)
        w += 32
    return v


def lanes(v, lw):
    n = 128 // lw
    return [tm.extract(v, lw * i + lw - 1, lw * i) if isinstance(v, T) else (v >> (lw * i)) & ((1 << lw) - 1) for i in range(n)]


def from_lanes(ls, lw):
    v = ls[-1]
    w = lw
    for l in reversed(ls[:-1]):
        v = tm.concat_w(v, w, l, lw)
        w += lw
    return v


def _slt(x, y, lw):
    """signed less-than on lw-bit lanes"""
    sb = 1 << (lw - 1)
    return tm.ult(tm.bv('xor', x, sb, lw), tm.bv('xor', y, sb, lw), lw)


LANE_OPS = {}
for _sfx, _lw in (('B', 8), ('W', 16), ('L', 32), ('Q', 64)):
    LANE_OPS['PADD' + _sfx] = (_lw, lambda a, b, lw: tm.bv('add', b, a, lw))
    LANE_OPS['PSUB' + _sfx] = (_lw, lambda a, b, lw: tm.bv('sub', b, a, lw))      # dst = dst - src
    LANE_OPS['PCMPEQ' + _sfx] = (_lw, lambda a, b, lw: tm.ite(tm.eq(a, b, lw), (1 << lw) - 1, 0, lw))
    LANE_OPS['PCMPGT' + _sfx] = (_lw, lambda a, b, lw: tm.ite(_slt(a, b, lw), (1 << lw) - 1, 0, lw))   # dst > src (signed)
LANE_OPS['PMAXUB'] = (8, lambda a, b, lw: tm.ite(tm.ult(a, b, lw), b, a, lw))
LANE_OPS['PMINUB'] = (8, lambda a, b, lw: tm.ite(tm.ult(a, b, lw), a, b, lw))
LANE_OPS['PMAXSW'] = (16, lambda a, b, lw: tm.ite(_slt(a, b, lw), b, a, lw))
LANE_OPS['PMINSW'] = (16, lambda a, b, lw: tm.ite(_slt(a, b, lw), a, b, lw))
SHIFT_OPS = {'PSLLW': (16, 'shl'), 'PSLLL': (32, 'shl'), 'PSLLQ': (64, 'shl'), 'PSRLW': (16, 'lshr'), 'PSRLL': (32, 'lshr'), 'PSRLQ': (64, 'lshr')}


def imm(op):
    if not op.startswith('$'):
        raise AsmError("expected immediate: %s" % op)
    return int(op[1:], 0)


def run(func, args, regions, max_steps=5000):
    """execute one TEXT block. args: name -> int/T or ('ptr', Region, 0). returns (machine, faults)"""
    faults = []
    M = Machine(args, regions, faults)
    labels = {lab: i for i, (lab, mn, ops) in enumerate(func) if lab}
    pc = 0
    while True:
        if pc >= len(func):
            raise AsmError("fell off the end of the function")
        lab, mn, ops = func[pc]
        pc += 1
        if mn is None:
            continue
        M.steps += 1
        if M.steps > max_steps:
            raise AsmError("step budget exceeded (loop bound)")
        if mn == 'RET':
            return M, faults
        if mn in ('MOVQ', 'MOVD', 'MOVL'):
            src, dst = ops
            # source
            fp = re.match(r'^(\w+)\+(\d+)\(FP\)$', src)
            if fp:
                v = M.args[fp.group(1)]
            elif src.startswith('$'):
                v = imm(src) & (2 ** 64 - 1)
            elif src in GPR:
                v = M.gpr(src)
            elif re.match(r'^X\d+$', src):
                v = tm.extract(M.xmm(src), 63, 0)
            else:
                v = M.load(src, 8)
            if mn in ('MOVD', 'MOVL') and not isinstance(v, tuple):
                v = tm.zext_any(tm.extract(v, 31, 0), 32, 64) if isinstance(v, T) else v & 0xffffffff
            if dst in GPR:
                M.r[dst] = v
            elif re.match(r'^X\d+$', dst):
                if isinstance(v, tuple):
                    raise AsmError("pointer moved into vector register")
                M.x[dst] = tm.zext(v, 128) if isinstance(v, T) else v
            else:
                if isinstance(v, tuple):
                    raise AsmError("pointer stored to memory")
                M.store(dst, v, 8)
            continue
        if mn in ('MOVOU', 'MOVOA', 'MOVO', 'MOVUPS', 'MOVAPS', 'MOVDQU', 'MOVDQA'):
            aligned = mn in ('MOVOA', 'MOVO', 'MOVAPS', 'MOVDQA')
            src, dst = ops
            if re.match(r'^X\d+$', src) and re.match(r'^X\d+$', dst):
                M.x[dst] = M.xmm(src)
            elif re.match(r'^X\d+$', dst):
                reg, off = M.mem_addr(src)
                M.check_access(reg, off, 16, aligned)
                M.x[dst] = cat128(reg.words[off // 8 + 1], reg.words[off // 8])
            else:
                M.store(dst, M.xmm(src), 16, aligned)
            continue
        if mn == 'PSHUFD':
            sel, src, dst = imm(ops[0]), ops[1], ops[2]
            ls = lanes32(M.xmm(src))
            M.x[dst] = from_lanes32([ls[(sel >> (2 * i)) & 3] for i in range(4)])
            continue
        if mn in ('PXOR', 'PAND', 'POR', 'PANDN'):
            src, dst = ops
            if mn == 'PXOR' and src == dst:
                M.x[dst] = 0
                continue
            a, b = M.xmm(src), M.xmm(dst)
            if mn == 'PANDN':
                M.x[dst] = tm.bv('and', tm.bvnot(b, 128), a, 128)
            else:
                M.x[dst] = tm.bv({'PXOR': 'xor', 'PAND': 'and', 'POR': 'or'}[mn], a, b, 128)
            continue
        if mn in LANE_OPS and mn not in ('PCMPEQL', 'PCMPEQQ'):
            src, dst = ops
            lw, f = LANE_OPS[mn]
            la, lb = lanes(M.xmm(src), lw), lanes(M.xmm(dst), lw)
            M.x[dst] = from_lanes([f(x, y, lw) for x, y in zip(la, lb)], lw)
            continue
        if mn in SHIFT_OPS and ops[0].startswith('$'):
            lw, op = SHIFT_OPS[mn]
            k = imm(ops[0])
            ls = lanes(M.xmm(ops[1]), lw)
            M.x[ops[1]] = from_lanes([0 if k >= lw else tm.bv(op, x, k, lw) for x in ls], lw)
            continue
        if mn in ('PSLLO', 'PSRLO', 'PSLLDQ', 'PSRLDQ') and ops[0].startswith('$'):
            k = min(imm(ops[0]), 16) * 8
            v = M.xmm(ops[1])
            M.x[ops[1]] = 0 if k >= 128 else tm.bv('shl' if mn in ('PSLLO', 'PSLLDQ') else 'lshr', v, k, 128)
            continue
        if mn in ('PUNPCKLQDQ', 'PUNPCKHQDQ'):
            src, dst = ops
            a, b = lanes(M.xmm(src), 64), lanes(M.xmm(dst), 64)
            M.x[dst] = cat128(a[0], b[0]) if mn == 'PUNPCKLQDQ' else cat128(a[1], b[1])
            continue
        if mn in ('PUNPCKLLQ', 'PUNPCKHLQ'):
            src, dst = ops
            a, b = lanes(M.xmm(src), 32), lanes(M.xmm(dst), 32)
            M.x[dst] = from_lanes([b[0], a[0], b[1], a[1]] if mn == 'PUNPCKLLQ' else [b[2], a[2], b[3], a[3]], 32)
            continue
        if mn in ('XORQ', 'ANDQ', 'ORQ'):
            src, dst = ops
            if mn == 'XORQ' and src == dst:
                M.r[dst] = 0
                continue
            v = imm(src) & (2 ** 64 - 1) if src.startswith('$') else M.gpr(src)
            d = M.gpr(dst)
            if isinstance(d, tuple) or isinstance(v, tuple):
                raise AsmError("bitwise operation on a pointer")
            M.r[dst] = tm.bv({'XORQ': 'xor', 'ANDQ': 'and', 'ORQ': 'or'}[mn], d, v, 64)
            continue
        if mn in ('NOTQ', 'NEGQ'):
            d = M.gpr(ops[0])
            if isinstance(d, tuple):
                raise AsmError("%s on a pointer" % mn)
            M.r[ops[0]] = tm.bvnot(d, 64) if mn == 'NOTQ' else tm.bv('sub', 0, d, 64)
            continue
        if mn in ('SHLQ', 'SHRQ') and ops[0].startswith('$'):
            d = M.gpr(ops[1])
            if isinstance(d, tuple):
                raise AsmError("shift of a pointer")
            k = imm(ops[0]) & 63
            M.r[ops[1]] = tm.bv('shl' if mn == 'SHLQ' else 'lshr', d, k, 64)
            continue
        if mn == 'LEAQ':
            src, dst = ops
            mm = re.match(r'^(-?(?:0x[0-9a-fA-F]+|\d+))?\((\w+)\)$', src)
            if not mm:
                raise AsmError("unsupported LEAQ operand %s" % src)
            off = int(mm.group(1), 0) if mm.group(1) else 0
            b = M.gpr(mm.group(2))
            M.r[dst] = ('ptr', b[1], b[2] + off) if isinstance(b, tuple) else tm.bv('add', b, off & (2 ** 64 - 1), 64)
            continue
        if mn == 'TESTQ':
            a, b = M.gpr(ops[0]), M.gpr(ops[1])
            if isinstance(a, tuple) or isinstance(b, tuple):
                raise AsmError("TESTQ on a pointer")
            M.cmp = (tm.bv('and', a, b, 64), 0)
            continue
        if mn in ('PCMPEQL', 'PCMPEQQ'):
            src, dst = ops
            a, b = M.xmm(src), M.xmm(dst)
            if mn == 'PCMPEQL':
                la, lb = lanes32(a), lanes32(b)
                M.x[dst] = from_lanes32([tm.ite(tm.eq(x, y, 32), 0xffffffff, 0, 32) for x, y in zip(la, lb)])
            else:
                out = []
                for i in range(2):
                    x = tm.extract(a, 64 * i + 63, 64 * i) if isinstance(a, T) else (a >> (64 * i)) & (2 ** 64 - 1)
                    y = tm.extract(b, 64 * i + 63, 64 * i) if isinstance(b, T) else (b >> (64 * i)) & (2 ** 64 - 1)
                    out.append(tm.ite(tm.eq(x, y, 64), 2 ** 64 - 1, 0, 64))
                M.x[dst] = cat128(out[1], out[0])
            continue
        if mn in ('ADDQ', 'SUBQ'):
            src, dst = ops
            v = imm(src) if src.startswith('$') else M.gpr(src)
            d = M.gpr(dst)
            if isinstance(d, tuple):
                if isinstance(v, (T, tuple)):
                    raise AsmError("pointer arithmetic with a symbolic value")
                M.r[dst] = ('ptr', d[1], d[2] + (v if mn == 'ADDQ' else -v))
            else:
                M.r[dst] = tm.bv('add' if mn == 'ADDQ' else 'sub', d, v, 64)
            continue
        if mn in ('INCQ', 'DECQ'):
            d = M.gpr(ops[0])
            if isinstance(d, tuple):
                raise AsmError("INC on pointer")
            M.r[ops[0]] = tm.bv('add' if mn == 'INCQ' else 'sub', d, 1, 64)
            continue
        if mn == 'CMPQ':
            a = M.gpr(ops[0]) if ops[0] in GPR else imm(ops[0])
            b = M.gpr(ops[1]) if ops[1] in GPR else imm(ops[1])
            M.cmp = (a, b)
            continue
        if mn in ('JLE', 'JLT', 'JL', 'JNE', 'JEQ', 'JE', 'JGE', 'JGT', 'JLS', 'JHI', 'JCS', 'JCC', 'JMP'):
            if mn == 'JMP':
                pc = labels[ops[0]]
                continue
            if M.cmp is None:
                raise AsmError("conditional jump without compare")
            a, b = M.cmp
            if isinstance(a, (T, tuple)) or isinstance(b, (T, tuple)):
                raise AsmFault("branch on a symbolic (data-dependent) condition")
            sa = a - (1 << 64) if a >> 63 else a
            sb = b - (1 << 64) if b >> 63 else b
            take = {'JLE': sa <= sb, 'JLT': sa < sb, 'JL': sa < sb, 'JNE': a != b, 'JEQ': a == b, 'JE': a == b,
                    'JGE': sa >= sb, 'JGT': sa > sb, 'JLS': a <= b, 'JHI': a > b, 'JCS': a < b, 'JCC': a >= b}[mn]
            if take:
                pc = labels[ops[0]]
            continue
        raise AsmError("unsupported instruction %s %s" % (mn, ', '.join(ops)))
