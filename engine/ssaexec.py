"""Symbolic executor for go/ssa (as dumped by ssajson) over the term layer.

Execution model: *re-execution with a decision prefix*.  A harness is a Python
function h(ctx).  It is run from scratch once per explored path; at a symbolic
branch the context consults its decision prefix, and beyond the prefix asks the
solver which sides are feasible, takes one and queues the other.  Memory is
therefore ordinary mutable Python state and contracts are ordinary Python.
"""
import json
import sys
import time
import z3
from . import term as tm
from .term import T


# ------------------------------------------------------------------ exceptions
class GoPanic(Exception):
    def __init__(self, value, where=''):
        Exception.__init__(self, "go panic: %r at %s" % (value, where))
        self.value = value
        self.where = where


class Infeasible(Exception):
    pass


class UnwindExceeded(Exception):
    pass


class Unsupported(Exception):
    pass


class AbstractionBreach(Exception):
    pass


class MissingFunction(Unsupported):
    """a harness names a function of the module under test that the current tree does not have (an internal helper was renamed,
    inlined or removed): the harness has no subject -- neither a verdict nor a failure of the machinery"""
    pass


# ------------------------------------------------------------------ values
class Obj:
    __slots__ = ('id', 'tree', 'tid', 'label', 'is_global', 'fresh', 'written', 'epoch')
    _n = [0]

    def __init__(self, tree, tid, label='', is_global=False, epoch=0):
        Obj._n[0] += 1
        self.id = Obj._n[0]
        self.tree = tree
        self.tid = tid
        self.label = label
        self.is_global = is_global
        self.written = False
        self.epoch = epoch

    def __repr__(self):
        return '<obj %d %s>' % (self.id, self.label)


class Ptr:
    __slots__ = ('obj', 'path')

    def __init__(self, obj, path=()):
        self.obj = obj
        self.path = path

    def __repr__(self):
        return 'Ptr(%r,%r)' % (self.obj, self.path)

    def is_nil(self):
        return self.obj is None

    def same(self, o):
        return isinstance(o, Ptr) and self.obj is o.obj and self.path == o.path


NILPTR = Ptr(None, ())


class Slice:
    __slots__ = ('obj', 'path', 'off', 'len', 'cap')

    def __init__(self, obj, path, off, ln, cap):
        self.obj = obj  # backing object; element i lives at path+(off+i,)
        self.path = path
        self.off = off
        self.len = ln
        self.cap = cap

    def __repr__(self):
        return 'Slice(%r,%r,off=%r,len=%r,cap=%r)' % (self.obj, self.path, self.off, self.len, self.cap)

    def is_nil(self):
        return self.obj is None


NILSLICE = Slice(None, (), 0, 0, 0)


class Iface:
    __slots__ = ('tname', 'val')

    def __init__(self, tname, val):
        self.tname = tname
        self.val = val

    def __repr__(self):
        return 'Iface(%s,%r)' % (self.tname, self.val)


class Closure:
    __slots__ = ('fn', 'bindings')

    def __init__(self, fn, bindings=()):
        self.fn = fn
        self.bindings = bindings

    def __repr__(self):
        return 'Closure(%s)' % self.fn


class PyFunc:
    """a Python callable used as a Go func value"""
    __slots__ = ('f',)

    def __init__(self, f):
        self.f = f


class Abs:
    """opaque abstract leaf (domain payload)"""
    __slots__ = ('kind', 'v')

    def __init__(self, kind, v):
        self.kind = kind
        self.v = v

    def __repr__(self):
        return 'Abs(%s,%r)' % (self.kind, self.v)


class GoMap:
    __slots__ = ('d',)

    def __init__(self):
        self.d = {}


# ------------------------------------------------------------------ program
class Prog:
    def __init__(self, path):
        t0 = time.time()
        d = json.load(open(path))
        self.types = d['types']
        self.funcs = {f['name']: f for f in d['funcs']}
        self.globals = {g['n']: g for g in d['globals']}
        self.methods = d['methods']
        self.tid_by_str = {t['s']: i for i, t in enumerate(self.types)}
        for f in self.funcs.values():
            self._prep(f)
        self.load_time = time.time() - t0

    def _prep(self, f):
        if 'blocks' not in f:
            return
        f['has_defer'] = any(I['op'] == 'Defer' for b in f['blocks'] for I in b['instrs'])
        for b in f['blocks']:
            ins = b['instrs']
            nphi = 0
            while nphi < len(ins) and ins[nphi]['op'] == 'Phi':
                nphi += 1
            b['nphi'] = nphi

    def under(self, tid):
        t = self.types[tid]
        while t['k'] == 'named':
            t = self.types[t['under']]
        return t

    def under_id(self, tid):
        t = self.types[tid]
        while t['k'] == 'named':
            tid = t['under']
            t = self.types[tid]
        return tid

    def tstr(self, tid):
        return self.types[tid]['s']

    def func(self, name):
        return self.funcs.get(name)

    def find_funcs(self, substr):
        return [n for n in self.funcs if substr in n]


# ------------------------------------------------------------------ solver for path feasibility
class PathSolver:
    def __init__(self, timeout_ms=10000):
        self.low = tm.BVLower()
        self.timeout = timeout_ms
        self.queries = 0
        self.time = 0.0
        self.cache = {}

    def check(self, conds):
        """conds: list of Bool terms/py bools -> 'sat'/'unsat'/'unknown'"""
        cs = []
        for c in conds:
            if isinstance(c, T):
                cs.append(c)
            elif not c:
                return 'unsat'
        key = frozenset(c.id for c in cs)
        r = self.cache.get(key)
        if r is not None:
            return r
        s = z3.Solver()
        s.set('timeout', self.timeout)
        for c in cs:
            s.add(self.low.lo(c))
        t0 = time.time()
        r = str(s.check())
        self.time += time.time() - t0
        self.queries += 1
        self.cache[key] = r
        return r

    def model_values(self, conds, terms):
        s = z3.Solver()
        s.set('timeout', self.timeout)
        for c in conds:
            if isinstance(c, T):
                s.add(self.low.lo(c))
        if s.check() != z3.sat:
            return None
        m = s.model()
        out = []
        for t in terms:
            v = m.eval(self.low.lo(t), model_completion=True)
            out.append(v.as_long() if t.w else z3.is_true(v))
        return out

    def enumerate(self, conds, t, limit=600):
        s = z3.Solver()
        s.set('timeout', self.timeout)
        for c in conds:
            if isinstance(c, T):
                s.add(self.low.lo(c))
            elif not c:
                return []
        e = self.low.lo(t)
        vals = []
        while len(vals) <= limit:
            t0 = time.time()
            r = s.check()
            self.time += time.time() - t0
            self.queries += 1
            if r == z3.unsat:
                break
            if r != z3.sat:
                raise Unsupported("enumerate: solver unknown")
            v = s.model().eval(e, model_completion=True).as_long()
            vals.append(v)
            s.add(e != v)
        if len(vals) > limit:
            raise Unsupported("enumerate: more than %d values" % limit)
        return sorted(vals)


# ------------------------------------------------------------------ execution context (one path)
class Ctx:
    def __init__(self, explorer, prefix):
        self.ex = explorer
        self.prefix = prefix
        self.decisions = []
        self.pc = []
        self.obligations = []  # (name, pc snapshot, goal term)
        self.loop_counts = {}
        self.notes = []
        self.steps = 0

    # branch on a Bool term
    def branch(self, cond, site=None):
        if not isinstance(cond, T):
            return bool(cond)
        i = len(self.decisions)
        if i < len(self.prefix):
            d = self.prefix[i]
            self.decisions.append(d)
            self.pc.append(cond if d else tm.bnot(cond))
            return d
        ps = self.ex.psolver
        # every symbolic branch records a decision (also implied ones) so that replays stay aligned
        implied = None
        for c in self.pc:
            if c is cond:
                implied = True
        if implied is None:
            rt = ps.check(self.pc + [cond])
            rf = ps.check(self.pc + [tm.bnot(cond)])
            if rt == 'unsat' and rf == 'unsat':
                raise Infeasible()
            if rf == 'unsat':
                implied = True
            elif rt == 'unsat':
                implied = False
        if implied is not None:
            self.decisions.append(implied)
            return implied
        self.ex.queue(self.decisions + [False])
        self.decisions.append(True)
        self.pc.append(cond)
        return True

    def assume(self, cond):
        if not isinstance(cond, T):
            if not cond:
                raise Infeasible()
            return
        self.pc.append(cond)

    def concretize(self, t, w, what=''):
        if not isinstance(t, T):
            return t
        i = len(self.decisions)
        if i < len(self.prefix):
            v = self.prefix[i]
            self.decisions.append(v)
            self.pc.append(tm.eq(t, v, w))
            return v
        vals = self.ex.psolver.enumerate(self.pc, t)
        if not vals:
            raise Infeasible()
        if len(vals) == 1:
            self.decisions.append(vals[0])
            return vals[0]
        for v in vals[1:]:
            self.ex.queue(self.decisions + [v])
        self.decisions.append(vals[0])
        self.pc.append(tm.eq(t, vals[0], w))
        return vals[0]

    def check(self, goal, name):
        """record proof obligation: on this path, goal must hold"""
        self.obligations.append((name, list(self.pc), goal))

    def feasible(self, extra=()):
        return self.ex.psolver.check(self.pc + list(extra)) != 'unsat'


class StopExploration(Exception):
    """raised by a harness / instrumentation when the verdict of the harness is already established (e.g. the taint run has
    recorded secret-dependent control flow): the current path ends here and the remaining work list is dropped"""


class PathResult:
    __slots__ = ('decisions', 'pc', 'obligations', 'outcome', 'value', 'notes', 'steps')


class Explorer:
    """explores all paths of harness(ctx) by re-execution"""

    def __init__(self, max_paths=20000, solver_timeout_ms=20000):
        self.psolver = PathSolver(solver_timeout_ms)
        self.work = []
        self.max_paths = max_paths
        self.paths = []
        self.infeasible = 0

    def queue(self, prefix):
        self.work.append(list(prefix))

    def run(self, harness):
        self.work = [[]]
        self.paths = []
        import os
        t_end = time.time() + float(os.environ.get('VERIF_EXPLORE_TIMEOUT') or (7200 if os.environ.get('VERIF_TIER') == 'thorough' or '--tier thorough' in ' '.join(sys.argv) else 900))
        while self.work:
            if len(self.paths) > self.max_paths:
                raise Unsupported("path budget exceeded (%d)" % self.max_paths)
            if time.time() > t_end:
                # a harness whose path count explodes on a changed tree must not hold the whole check: no verdict for this harness
                raise Unsupported("exploration time budget exceeded after %d paths" % len(self.paths))
            prefix = self.work.pop()
            ctx = Ctx(self, prefix)
            r = PathResult()
            try:
                r.value = harness(ctx)
                r.outcome = 'ok'
            except GoPanic as p:
                r.outcome = 'panic'
                r.value = p
            except Infeasible:
                self.infeasible += 1
                continue
            except UnwindExceeded as u:
                r.outcome = 'unwind'
                r.value = u
            except StopExploration as st:
                r.outcome = 'stopped'
                r.value = st
                self.work = []
            r.decisions = ctx.decisions
            r.pc = ctx.pc
            r.obligations = ctx.obligations
            r.notes = ctx.notes
            r.steps = ctx.steps
            self.paths.append(r)
        return self.paths


# ------------------------------------------------------------------ machine
class Machine:
    def __init__(self, prog, ctx=None):
        self.prog = prog
        self.ctx = ctx
        self.globals = {}
        self.global_init = {}  # name -> callable(machine) -> tree   (lazy)
        self.contracts = {}  # func name -> python callable(machine, args) -> result
        self.abstract_types = {}  # type string -> callable() -> zero leaf
        self.unwind = 64
        self.trace_calls = None  # set() to collect entered function names
        self.called = set()
        self.depth = 0
        self.epoch = 0
        self.store_log = None  # list to collect (obj, path) of stores
        self.branch_log = None  # list of (fn, block, cond) symbolic branch conditions
        self.index_log = None  # list of symbolic indices
        self.instr_count = 0
        self.alloc_label = ''
        self._idx_w = {}
        self._merge_w = None
        self.panic_stack = []
        self._last_frame = None
        self.concretize_slices = False  # symbolic slice offsets/lengths are kept symbolic (concretised on demand)
        from . import builtins_go
        builtins_go.install(self)

    # ---------------------------------------------------------- types / zero values
    def zero(self, tid):
        P = self.prog
        t = P.types[tid]
        k = t['k']
        if k == 'named':
            az = self.abstract_types.get(t['s'])
            if az is not None:
                return az()
            return self.zero(t['under'])
        if k == 'basic':
            if t.get('int'):
                return 0
            if t.get('bool'):
                return False
            if t.get('string'):
                return ''
            if t.get('unsafeptr'):
                return NILPTR
            if t['name'] in ('float64', 'float32'):
                return 0.0
            raise Unsupported("zero of basic %s" % t['name'])
        if k == 'ptr':
            return NILPTR
        if k == 'array':
            return [self.zero(t['elem']) for _ in range(t['len'])]
        if k == 'slice':
            return NILSLICE
        if k == 'struct':
            return [self.zero(f['t']) for f in t['fields']]
        if k in ('iface', 'func', 'map', 'chan'):
            return None
        if k == 'tuple':
            return tuple(self.zero(e) for e in t['elems'])
        raise Unsupported("zero of %s" % t)

    def new_obj(self, tid, tree=None, label=''):
        if tree is None:
            tree = self.zero(tid)
        return Obj(tree, tid, label or self.alloc_label, epoch=self.epoch)

    def int_info(self, tid):
        t = self.prog.under(tid)
        if t['k'] == 'basic' and t.get('int'):
            return t['bits'], t['signed']
        if t['k'] == 'basic' and t.get('unsafeptr'):
            return None
        return None

    # ---------------------------------------------------------- memory
    def _copy_in(self, v):
        if isinstance(v, (list, tuple)):
            return [self._copy_in(x) for x in v]
        return v

    def _copy_out(self, v):
        if isinstance(v, list):
            return tuple(self._copy_out(x) for x in v)
        return v

    def load(self, p):
        if p.obj is None:
            raise GoPanic('nil pointer dereference')
        return self._copy_out(self._load(p.obj.tree, p.path, 0))

    def _load(self, node, path, i):
        n = len(path)
        while i < n:
            if isinstance(node, Abs):
                node = self._materialize(node, "load through abstract leaf %r path %r" % (node, path))
            e = path[i]
            if isinstance(e, tuple):  # ('win', off, n): virtual sub-array
                _, off, cnt = e
                if i == n - 1:
                    return node[off:off + cnt]
                j = path[i + 1]
                if isinstance(j, T):
                    vals = [self._load(node[off + k], path, i + 2) for k in range(min(cnt, j.ub + 1))]
                    return self._merge_indexed(j, vals)
                node = node[off + j]
                i += 2
                continue
            if isinstance(e, T):
                # symbolic index: ite-merge all elements
                vals = [self._load(node[j], path, i + 1) for j in range(min(len(node), e.ub + 1))]
                return self._merge_indexed(e, vals)
            node = node[e]
            i += 1
        return node

    def note_elem_width(self, idx, elem_tid):
        """remember the integer width of the leaves below a symbolically indexed array (needed to merge concrete ints)"""
        t = self.prog.under(elem_tid)
        w = None
        if t['k'] == 'basic' and t.get('int'):
            w = t['bits']
        self._idx_w[idx.id] = w

    def _merge_indexed(self, idx, vals):
        r = vals[-1]
        old = self._merge_w
        self._merge_w = self._idx_w.get(idx.id) or old
        try:
            for j in range(len(vals) - 2, -1, -1):
                r = self.merge(tm.eq(idx, j, idx.w), vals[j], r)
        finally:
            self._merge_w = old
        return r

    def merge(self, c, a, b):
        """ite over arbitrary values"""
        if a is b:
            return a
        if isinstance(a, (list, tuple)) and isinstance(b, (list, tuple)):
            return [self.merge(c, x, y) for x, y in zip(a, b)]
        if isinstance(a, bool) or isinstance(b, bool) or (isinstance(a, T) and a.w == 0) or (isinstance(b, T) and b.w == 0):
            return tm.ite(c, a, b, 0)
        if isinstance(a, (int, T)) and isinstance(b, (int, T)):
            w = a.w if isinstance(a, T) else (b.w if isinstance(b, T) else None)
            if w is None:
                if a == b:
                    return a
                # concrete leaves: width from the indexed array's element type, else limbs (every integer array reached
                # through a symbolic index in this code base is []byte / [n]byte or 64-bit limbs)
                w = self._merge_w or (64 if max(a, b) > 255 else None)
                if w is None:
                    raise Unsupported("merge of ints with unknown width")
            return tm.ite(c, a, b, w)
        if isinstance(a, Ptr) and isinstance(b, Ptr) and a.same(b):
            return a
        if isinstance(a, Abs) and isinstance(b, Abs):
            h = self.abs_merge
            return h(c, a, b)
        if isinstance(a, Abs) and isinstance(b, (list, tuple)):
            return self.merge(c, self._materialize(a, "merge of abstract and concrete value"), b)
        if isinstance(b, Abs) and isinstance(a, (list, tuple)):
            return self.merge(c, a, self._materialize(b, "merge of abstract and concrete value"))
        if a == b:
            return a
        raise Unsupported("merge of %r / %r" % (a, b))

    abs_merge = None
    abs_materialize = None     # {kind: fn(Abs) -> concrete tree}: lets code that reaches below an abstract leaf run on a concrete image

    def _materialize(self, node, why):
        f = (self.abs_materialize or {}).get(node.kind)
        if f is None:
            raise AbstractionBreach(why)
        return self._copy_in(f(node))

    def store(self, p, v):
        if p.obj is None:
            raise GoPanic('nil pointer dereference')
        o = p.obj
        o.written = True
        if self.store_log is not None:
            self.store_log.append((o, p.path))
        v = self._copy_in(v)
        if not p.path:
            o.tree = v
            return
        if isinstance(o.tree, Abs):
            o.tree = self._materialize(o.tree, "store through abstract leaf %r" % (o.tree,))
        self._store(o.tree, p.path, 0, v, True)

    def _store(self, node, path, i, v, guard):
        e = path[i]
        last = i == len(path) - 1
        if isinstance(node, Abs):
            raise AbstractionBreach("store through abstract leaf %r" % (node,))
        if not isinstance(e, (tuple, T)) and not last and isinstance(node[e], Abs):
            node[e] = self._materialize(node[e], "store through abstract leaf %r" % (node[e],))
        if isinstance(e, tuple):
            _, off, cnt = e
            if last:
                for k in range(cnt):
                    node[off + k] = v[k] if guard is True else self.merge(guard, v[k], node[off + k])
                return
            j = path[i + 1]
            last2 = i + 1 == len(path) - 1
            if isinstance(j, T):
                for k in range(min(cnt, j.ub + 1)):
                    g = tm.band(guard, tm.eq(j, k, j.w)) if guard is not True else tm.eq(j, k, j.w)
                    if last2:
                        node[off + k] = self.merge(g, v, node[off + k])
                    else:
                        if isinstance(node[off + k], Abs):
                            node[off + k] = self._materialize(node[off + k], "store through abstract leaf")
                        self._store(node[off + k], path, i + 2, v, g)
                return
            if last2:
                node[off + j] = v if guard is True else self.merge(guard, v, node[off + j])
            else:
                if isinstance(node[off + j], Abs):
                    node[off + j] = self._materialize(node[off + j], "store through abstract leaf")
                self._store(node[off + j], path, i + 2, v, guard)
            return
        if isinstance(e, T):
            for j in range(min(len(node), e.ub + 1)):
                g = tm.band(guard, tm.eq(e, j, e.w)) if guard is not True else tm.eq(e, j, e.w)
                if last:
                    node[j] = self.merge(g, v, node[j])
                else:
                    if isinstance(node[j], Abs):
                        node[j] = self._materialize(node[j], "store through abstract leaf")
                    self._store(node[j], path, i + 1, v, g)
            return
        if last:
            node[e] = v if guard is True else self.merge(guard, v, node[e])
        else:
            self._store(node[e], path, i + 1, v, guard)

    # ---------------------------------------------------------- globals
    def global_ptr(self, name):
        o = self.globals.get(name)
        if o is None:
            g = self.prog.globals.get(name)
            init = self.global_init.get(name)
            if g is None and init is None:
                raise Unsupported("unknown global %s" % name)
            if g is None:
                g = {'et': None}
            if init is not None:
                tree = init(self)
            else:
                tree = self.default_global(name, g)
            o = Obj(tree, g['et'], label=name, is_global=True, epoch=-1)
            self.globals[name] = o
        return Ptr(o, ())

    def default_global(self, name, g):
        if name.endswith('init$guard'):
            return True
        raise Unsupported("global %s has no initial value" % name)

    # ---------------------------------------------------------- values
    def value(self, fr, v):
        k = v['k']
        if k == 'v':
            return fr[v['n']]
        if k == 'c':
            return self.const(v)
        if k == 'g':
            return self.global_ptr(v['n'])
        if k == 'f':
            return Closure(v['n'])
        if k == 'b':
            return ('builtin', v['n'])
        raise Unsupported(k)

    def const(self, v):
        if 'i' in v:
            n = int(v['i'])
            ii = self.int_info(v['t'])
            if ii:
                return n & tm.mask(ii[0])
            return n
        if 'b' in v:
            return v['b']
        if 'str' in v:
            return v['str']
        if v.get('nil'):
            return self.zero(v['t'])
        if 'f' in v:
            return float(eval(v['f'])) if '/' in v['f'] else float(v['f'])
        raise Unsupported("const %r" % v)

    # ---------------------------------------------------------- calls
    def call(self, name, args):
        """call Go function by full name with argument values"""
        c = self.contracts.get(name)
        if c is not None:
            self.called.add(name)
            return c(self, args)
        f = self.prog.funcs.get(name)
        if f is None:
            if getattr(self.prog, 'module', None) and self.prog.module in name:
                raise MissingFunction(name)
            raise Unsupported("no SSA for function %s" % name)
        if 'blocks' not in f:
            raise Unsupported("external function without contract: %s" % name)
        return self.run(f, args, ())

    @staticmethod
    def _last_pos(ins):
        for I in reversed(ins):
            if I.get('pos'):
                return I['pos']
        return None

    def call_value(self, fv, args):
        if isinstance(fv, Closure):
            c = self.contracts.get(fv.fn)
            if c is not None:
                self.called.add(fv.fn)
                return c(self, list(args))
            f = self.prog.funcs.get(fv.fn)
            if f is None:
                raise Unsupported("no SSA for function %s" % fv.fn)
            if 'blocks' not in f:
                raise Unsupported("external function without contract: %s" % fv.fn)
            return self.run(f, args, fv.bindings)
        if isinstance(fv, PyFunc):
            return fv.f(self, list(args))
        if fv is None:
            raise GoPanic("call of nil func")
        raise Unsupported("call of %r" % (fv,))

    def invoke(self, recv, mname, args):
        if recv is None:
            raise GoPanic("invoke on nil interface (%s)" % mname)
        if hasattr(recv.val, 'go_invoke'):
            return recv.val.go_invoke(self, mname, args)
        ms = self.prog.methods.get(recv.tname)
        if ms is None or mname not in ms:
            raise Unsupported("no method %s on %s" % (mname, recv.tname))
        return self.call(ms[mname], [recv.val] + list(args))

    def run(self, f, args, bindings):
        """execute one function; deferred calls run on normal return (RunDefers) and on panic; a deferred call to
        recover() stops the panic and control resumes in the function's recover block (go/ssa semantics)"""
        if not f.get('has_defer'):
            return self._run(f, args, bindings, None)
        defers = []
        try:
            return self._run(f, args, bindings, defers)
        except GoPanic as p:
            self.panic_stack.append(p)
            recovered = False
            try:
                while defers:
                    fn, dargs = defers.pop()
                    fn(dargs)
                    if self.panic_stack[-1] is None:
                        recovered = True
            finally:
                self.panic_stack.pop()
            if not recovered:
                raise
            if 'recover' not in f:
                # no named results: return zero values
                sig = self.prog.types[f['sig']]
                rs = [self.zero(t) for t in sig['results']]
                return rs[0] if len(rs) == 1 else (tuple(rs) if rs else None)
            return self._run(f, args, bindings, defers, start_block=f['recover'], frame=self._last_frame)

    def _run(self, f, args, bindings, defers, start_block=0, frame=None):
        self.called.add(f['name'])
        self.depth += 1
        if self.depth > 200:
            raise Unsupported("call depth")
        fr = {} if frame is None else frame
        if frame is None:
            for p, a in zip(f['params'], args):
                fr[p['n']] = a
            if len(args) != len(f['params']):
                raise Unsupported("arity mismatch calling %s: %d vs %d" % (f['name'], len(args), len(f['params'])))
            for p, a in zip(f['freevars'], bindings):
                fr[p['n']] = a
        if defers is not None:
            fr['$defers'] = defers
            self._last_frame = fr
        blocks = f['blocks']
        b = blocks[start_block]
        prev = -1
        fname = f['name']
        visits = {}
        prev_fn = getattr(self, 'cur_fn', None)
        self.cur_fn = fname
        try:
            while True:
                ins = b['instrs']
                # phis (parallel)
                nphi = b['nphi']
                if nphi:
                    pi = b['preds'].index(prev)
                    vals = [self.value(fr, ins[i]['edges'][pi]) for i in range(nphi)]
                    for i in range(nphi):
                        fr[ins[i]['n']] = vals[i]
                i = nphi
                n = len(ins)
                while i < n:
                    I = ins[i]
                    i += 1
                    op = I['op']
                    self.instr_count += 1
                    h = _DISPATCH.get(op)
                    if h is not None:
                        h(self, fr, I)
                        continue
                    if op == 'Jump':
                        prev = b['i']
                        b = blocks[b['succs'][0]]
                        break
                    if op == 'If':
                        c = self.value(fr, I['x'])
                        if isinstance(c, T):
                            key = b['i']
                            visits[key] = visits.get(key, 0) + 1
                            if visits[key] > self.unwind:
                                raise UnwindExceeded("%s block %d" % (fname, key))
                            if self.branch_log is not None:
                                self.branch_log.append((fname, b['i'], I.get('pos'), c))
                            self.cur_pos = I.get('pos') or self._last_pos(ins)
                            self.cur_fn = fname
                            c = self.ctx.branch(c, (fname, b['i']))
                        prev = b['i']
                        b = blocks[b['succs'][0 if c else 1]]
                        break
                    if op == 'Return':
                        rs = [self.value(fr, r) for r in I['results']]
                        if len(rs) == 1:
                            return rs[0]
                        if not rs:
                            return None
                        return tuple(rs)
                    if op == 'Panic':
                        v = self.value(fr, I['x'])
                        raise GoPanic(v, '%s %s' % (fname, I.get('pos')))
                    raise Unsupported("instruction %s in %s" % (op, fname))
                else:
                    raise Unsupported("fell off block in %s" % fname)
        finally:
            self.depth -= 1
            self.cur_fn = prev_fn


# ------------------------------------------------------------------ instruction handlers
def _i_alloc(m, fr, I):
    o = m.new_obj(I['et'], label=I.get('comment') or '')
    fr[I['n']] = Ptr(o, ())


_CMP = {'==', '!=', '<', '<=', '>', '>='}


def _i_binop(m, fr, I):
    x = m.value(fr, I['x'])
    y = m.value(fr, I['y'])
    fr[I['n']] = m.binop(I['tok'], x, y, I['xt'], I['yt'])


def _binop(m, tok, x, y, xt, yt):
    P = m.prog
    t = P.under(xt)
    k = t['k']
    if k == 'basic' and t.get('int'):
        w, signed = t['bits'], t['signed']
        if tok in ('<<', '>>'):
            ty = P.under(yt)
            wy = ty['bits']
            # shift count: widen/narrow to w (Go: count unsigned or non-negative)
            if isinstance(y, T):
                if wy < w:
                    y = tm.zext(y, w)
                elif wy > w:
                    big = tm.ule(w, y, wy)
                    ylow = tm.trunc(y, w)
                    if tok == '<<':
                        return tm.ite(big, 0, tm.bv('shl', x, ylow, w), w)
                    if signed:
                        return tm.ite(big, tm.bv('ashr', x, w - 1, w), tm.bv('ashr', x, ylow, w), w)
                    return tm.ite(big, 0, tm.bv('lshr', x, ylow, w), w)
            else:
                if y >= w:
                    if tok == '<<' or not signed:
                        return 0
                    y = w - 1
            if tok == '<<':
                return tm.bv('shl', x, y, w)
            return tm.bv('ashr' if signed else 'lshr', x, y, w)
        if tok == '+':
            return tm.bv('add', x, y, w)
        if tok == '-':
            return tm.bv('sub', x, y, w)
        if tok == '*':
            return tm.bv('mul', x, y, w)
        if tok == '&':
            return tm.bv('and', x, y, w)
        if tok == '|':
            return tm.bv('or', x, y, w)
        if tok == '^':
            return tm.bv('xor', x, y, w)
        if tok == '&^':
            return tm.bv('and', x, tm.bvnot(y, w), w)
        if tok == '/' or tok == '%':
            zero = tm.eq(y, 0, w)
            if isinstance(zero, T):
                if m.ctx.branch(zero):
                    raise GoPanic("integer divide by zero")
            elif zero:
                raise GoPanic("integer divide by zero")
            if signed:
                return tm.bv('sdiv' if tok == '/' else 'srem', x, y, w)
            return tm.bv('udiv' if tok == '/' else 'urem', x, y, w)
        if tok == '==':
            return tm.eq(x, y, w)
        if tok == '!=':
            return tm.bnot(tm.eq(x, y, w))
        if signed:
            lt, le = tm.slt, tm.sle
        else:
            lt, le = tm.ult, tm.ule
        if tok == '<':
            return lt(x, y, w)
        if tok == '<=':
            return le(x, y, w)
        if tok == '>':
            return lt(y, x, w)
        if tok == '>=':
            return le(y, x, w)
        raise Unsupported("int binop %s" % tok)
    if k == 'basic' and t.get('bool'):
        if tok == '==':
            return tm.eq(x, y, 0)
        if tok == '!=':
            return tm.bnot(tm.eq(x, y, 0))
        if tok == '&&' or tok == '&':
            return tm.band(x, y)
        if tok == '||' or tok == '|':
            return tm.bor(x, y)
        raise Unsupported("bool binop %s" % tok)
    if k == 'basic' and t.get('string'):
        if tok == '+':
            return x + y
        if tok == '==':
            return x == y
        if tok == '!=':
            return x != y
        if tok == '<':
            return x < y
        raise Unsupported("string binop %s" % tok)
    if tok in ('==', '!='):
        r = m.equal_values(x, y)
        return r if tok == '==' else tm.bnot(r)
    raise Unsupported("binop %s on %s" % (tok, t))


def _equal_values(m, x, y):
    if x is None or y is None:
        if x is None and y is None:
            return True
        o = y if x is None else x
        if isinstance(o, Ptr):
            return o.obj is None
        if isinstance(o, Slice):
            return o.obj is None
        return False
    if isinstance(x, Ptr) and isinstance(y, Ptr):
        return x.same(y)
    if isinstance(x, Slice) or isinstance(y, Slice):
        xs = x if isinstance(x, Slice) else y
        return xs.obj is None  # only comparison with nil is legal
    if isinstance(x, Iface) and isinstance(y, Iface):
        if x.tname != y.tname:
            return False
        return m.equal_values(x.val, y.val)
    if isinstance(x, (list, tuple)) and isinstance(y, (list, tuple)):
        r = True
        for a, b in zip(x, y):
            r = tm.band(r, m.equal_values(a, b))
        return r
    if isinstance(x, (bool,)) or isinstance(y, bool):
        return tm.eq(x, y, 0)
    if isinstance(x, (int, T)) and isinstance(y, (int, T)):
        w = x.w if isinstance(x, T) else (y.w if isinstance(y, T) else 64)
        return tm.eq(x, y, w)
    if isinstance(x, str) and isinstance(y, str):
        return x == y
    if isinstance(x, Closure) or isinstance(y, Closure):
        return False
    return x is y


def _i_unop(m, fr, I):
    x = m.value(fr, I['x'])
    tok = I['tok']
    if tok == '*':
        if x.obj is None:
            raise GoPanic('nil pointer dereference', I.get('pos'))
        fr[I['n']] = m.load(x)
        return
    t = m.prog.under(I['xt'])
    if tok == '!':
        fr[I['n']] = tm.bnot(x)
    elif tok == '-':
        fr[I['n']] = tm.bvneg(x, t['bits'])
    elif tok == '^':
        fr[I['n']] = tm.bvnot(x, t['bits'])
    else:
        raise Unsupported("unop %s" % tok)


def _i_call(m, fr, I):
    c = I['call']
    args = [m.value(fr, a) for a in c['args']]
    if 'invoke' in c:
        recv = m.value(fr, c['recv'])
        r = m.invoke(recv, c['invoke'], args)
    else:
        fn = c['fn']
        if fn['k'] == 'b':
            r = m.builtin(fn['n'], args, c, I)
        elif fn['k'] == 'f':
            r = m.call(fn['n'], args)
        else:
            r = m.call_value(m.value(fr, fn), args)
    fr[I['n']] = r


def _i_extract(m, fr, I):
    fr[I['n']] = m.value(fr, I['x'])[I['idx']]


def _i_fieldaddr(m, fr, I):
    p = m.value(fr, I['x'])
    if p.obj is None:
        raise GoPanic('nil pointer dereference', I.get('pos'))
    fr[I['n']] = Ptr(p.obj, p.path + (I['idx'],))


def _i_field(m, fr, I):
    v = m.value(fr, I['x'])
    if isinstance(v, Abs):
        v = m._materialize(v, "Field of abstract value")
    fr[I['n']] = v[I['idx']]


def _check_index(m, idx, n, w, pos):
    """bounds check idx < n (n int or term). returns possibly concretised idx"""
    if not isinstance(idx, T) and not isinstance(n, T):
        # signed interpretation for ints: negative shows as huge
        if idx >= n:
            raise GoPanic('index out of range [%d] with length %d' % (idx, n), pos)
        return idx
    oob = tm.bnot(tm.ult(idx, n, w))
    if isinstance(oob, T):
        if m.ctx.branch(oob):
            raise GoPanic('index out of range (symbolic)', pos)
    elif oob:
        raise GoPanic('index out of range', pos)
    return idx


def _to64(m, v, tid):
    """widen an index/bound operand of integer type tid to 64 bits"""
    if tid is None:
        return v
    t = m.prog.under(tid)
    if not t.get('int') or 'bits' not in t or t['bits'] == 64:
        return v
    return tm.convert(v, t['bits'], 64, t['signed'])


def _i_indexaddr(m, fr, I):
    x = m.value(fr, I['x'])
    idx = _to64(m, m.value(fr, I['idx']), I.get('idxt'))
    if m.index_log is not None and isinstance(idx, T):
        m.index_log.append((I.get('pos'), idx))
    if isinstance(x, Slice):
        if x.obj is None:
            raise GoPanic('index out of range on nil slice', I.get('pos'))
        idx = _check_index(m, idx, x.len, 64, I.get('pos'))
        e = tm.bv('add', x.off, idx, 64)
        if isinstance(e, T):
            e = m.index_term(e, x)
            m.note_elem_width(e, m.prog.under(I['xt'])['elem'])
        fr[I['n']] = Ptr(x.obj, x.path + (e,))
    else:
        t = m.prog.under(m.prog.under(I['xt'])['elem'])
        if x.obj is None:
            raise GoPanic('nil pointer dereference', I.get('pos'))
        idx = _check_index(m, idx, t['len'], 64, I.get('pos'))
        if isinstance(idx, T):
            m.note_elem_width(idx, t['elem'])
        fr[I['n']] = Ptr(x.obj, x.path + (idx,))


def _i_index(m, fr, I):
    x = m.value(fr, I['x'])
    idx = _to64(m, m.value(fr, I['idx']), I.get('idxt'))
    if isinstance(x, str):
        if isinstance(idx, T):
            raise Unsupported("symbolic string index")
        if idx >= len(x):
            raise GoPanic("string index out of range")
        fr[I['n']] = ord(x[idx]) if isinstance(x, str) else x[idx]
        return
    if isinstance(idx, T):
        idx = _check_index(m, idx, len(x), 64, I.get('pos'))
        fr[I['n']] = m._merge_indexed(idx, list(x))
        return
    if idx >= len(x):
        raise GoPanic("index out of range")
    fr[I['n']] = x[idx]


def _i_store(m, fr, I):
    m.store(m.value(fr, I['addr']), m.value(fr, I['v']))


def _i_convert(m, fr, I):
    x = m.value(fr, I['x'])
    P = m.prog
    ft = P.under(I['xt'])
    tt = P.under(I['t'])
    if ft['k'] == 'basic' and tt['k'] == 'basic':
        if ft.get('int') and tt.get('int'):
            fr[I['n']] = tm.convert(x, ft['bits'], tt['bits'], ft['signed'])
            return
        if ft.get('string') and tt.get('string'):
            fr[I['n']] = x
            return
        if ft.get('unsafeptr') or tt.get('unsafeptr'):
            fr[I['n']] = x
            return
        if ft.get('int') and tt.get('string'):
            fr[I['n']] = chr(x)
            return
    if ft['k'] == 'ptr' or tt['k'] == 'ptr':
        fr[I['n']] = x  # unsafe.Pointer <-> *T
        return
    if ft['k'] == 'basic' and ft.get('string') and tt['k'] == 'slice':
        data = [ord(c) if isinstance(c, str) else c for c in x]
        o = m.new_obj(None, tree=list(data), label='[]byte(string)')
        fr[I['n']] = Slice(o, (), 0, len(data), len(data))
        return
    if ft['k'] == 'slice' and tt['k'] == 'basic' and tt.get('string'):
        fr[I['n']] = m.slice_to_string(x)
        return
    raise Unsupported("convert %s -> %s" % (ft, tt))


def _i_changetype(m, fr, I):
    fr[I['n']] = m.value(fr, I['x'])


def _i_makeinterface(m, fr, I):
    x = m.value(fr, I['x'])
    fr[I['n']] = Iface(m.prog.tstr(I['xt']), x)


def _i_changeinterface(m, fr, I):
    fr[I['n']] = m.value(fr, I['x'])


def _i_typeassert(m, fr, I):
    x = m.value(fr, I['x'])
    at = m.prog.types[I['at']]
    is_iface = m.prog.under(I['at'])['k'] == 'iface'
    ok = False
    if x is not None:
        if is_iface:
            need = m.prog.under(I['at'])['methods']
            if hasattr(x.val, 'go_invoke'):
                ok = all(x.val.go_has(mn) for mn in need)
            else:
                ms = m.prog.methods.get(x.tname, {})
                ok = all(mn in ms for mn in need)
        else:
            ok = x.tname == at['s']
    if I['commaok']:
        if ok:
            fr[I['n']] = (x if is_iface else x.val, True)
        else:
            fr[I['n']] = (m.zero(I['at']), False)
    else:
        if not ok:
            raise GoPanic("interface conversion failed: %r to %s" % (x, at['s']))
        fr[I['n']] = x if is_iface else x.val


def _i_slice(m, fr, I):
    x = m.value(fr, I['x'])
    lo = _to64(m, m.value(fr, I['lo']), I.get('lot')) if I['lo'] is not None else None
    hi = _to64(m, m.value(fr, I['hi']), I.get('hit')) if I['hi'] is not None else None
    mx = _to64(m, m.value(fr, I['max']), I.get('maxt')) if I['max'] is not None else None
    fr[I['n']] = m.do_slice(x, lo, hi, mx, I)


def _do_slice(m, x, lo, hi, mx, I):
    pos = I.get('pos')
    if isinstance(x, str):
        lo = 0 if lo is None else lo
        hi = len(x) if hi is None else hi
        if isinstance(lo, T) or isinstance(hi, T):
            raise Unsupported("symbolic string slice")
        if lo > hi or hi > len(x):
            raise GoPanic("slice bounds out of range", pos)
        return x[lo:hi]
    if isinstance(x, Ptr):
        # pointer to array
        t = m.prog.under(m.prog.under(I['xt'])['elem'])
        n = t['len']
        base = Slice(x.obj, x.path, 0, n, n)
        if x.obj is None:
            raise GoPanic("nil pointer dereference", pos)
    else:
        base = x
    ln, cp = base.len, base.cap
    lo = 0 if lo is None else lo
    hi = ln if hi is None else hi
    mxv = cp if mx is None else mx
    if m.concretize_slices:
        if isinstance(lo, T):
            lo = m.ctx.concretize(lo, 64, 'slice lo')
        if isinstance(hi, T):
            hi = m.ctx.concretize(hi, 64, 'slice hi')
        if isinstance(mxv, T):
            mxv = m.ctx.concretize(mxv, 64, 'slice max')
    # bounds: 0 <= lo <= hi <= max <= cap
    conds = [tm.ule(lo, hi, 64), tm.ule(hi, mxv, 64), tm.ule(mxv, cp, 64)]
    bad = tm.bnot(tm.band_all(conds))
    if isinstance(bad, T):
        if m.ctx.branch(bad):
            raise GoPanic("slice bounds out of range (symbolic)", pos)
    elif bad:
        raise GoPanic("slice bounds out of range [%r:%r:%r] cap %r" % (lo, hi, mxv, cp), pos)
    if base.obj is None:
        return NILSLICE if not isinstance(x, Ptr) else base
    off = tm.bv('add', base.off, lo, 64)
    return Slice(base.obj, base.path, off, tm.bv('sub', hi, lo, 64), tm.bv('sub', mxv, lo, 64))


def _i_slice2arrptr(m, fr, I):
    x = m.value(fr, I['x'])
    t = m.prog.under(m.prog.under(I['t'])['elem'])
    n = t['len']
    short = tm.ult(x.len, n, 64)
    if isinstance(short, T):
        if m.ctx.branch(short):
            raise GoPanic("slice to array pointer: length too short", I.get('pos'))
    elif short:
        raise GoPanic("cannot convert slice with length %r to array of length %d" % (x.len, n), I.get('pos'))
    if x.obj is None:
        fr[I['n']] = NILPTR
        return
    fr[I['n']] = m.array_view(x, n)


def _i_makeslice(m, fr, I):
    ln = _to64(m, m.value(fr, I['len']), I.get('lent'))
    cp = _to64(m, m.value(fr, I['cap']), I.get('capt'))
    if isinstance(cp, T):
        cp = m.ctx.concretize(cp, 64, 'makeslice cap')
    if isinstance(ln, T):
        ln = m.ctx.concretize(ln, 64, 'makeslice len')
    if ln > cp or cp > (1 << 40):
        raise GoPanic("makeslice: len out of range", I.get('pos'))
    et = m.prog.under(I['t'])['elem']
    o = m.new_obj(None, tree=[m.zero(et) for _ in range(cp)], label='makeslice@%s' % I.get('pos'))
    fr[I['n']] = Slice(o, (), 0, ln, cp)


def _i_makeclosure(m, fr, I):
    fr[I['n']] = Closure(I['fn']['n'], tuple(m.value(fr, b) for b in I['bindings']))


def _i_lookup(m, fr, I):
    x = m.value(fr, I['x'])
    idx = m.value(fr, I['idx'])
    if isinstance(x, str):
        if isinstance(idx, T):
            raise Unsupported("symbolic string index")
        if idx >= len(x):
            raise GoPanic("string index out of range")
        fr[I['n']] = ord(x[idx])
        return
    if isinstance(x, GoMap):
        if isinstance(idx, T):
            raise Unsupported("symbolic map key")
        v = x.d.get(idx)
        zero = m.zero(m.prog.under(I['xt'])['elem'])
        if I['commaok']:
            fr[I['n']] = (v if idx in x.d else zero, idx in x.d)
        else:
            fr[I['n']] = v if idx in x.d else zero
        return
    raise Unsupported("lookup on %r" % (x,))


def _i_makemap(m, fr, I):
    fr[I['n']] = GoMap()


def _i_mapupdate(m, fr, I):
    mp = m.value(fr, I['m'])
    mp.d[m.value(fr, I['key'])] = m.value(fr, I['v'])


def _i_range(m, fr, I):
    x = m.value(fr, I['x'])
    if isinstance(x, str):
        fr[I['n']] = ['str', x, 0]
    elif isinstance(x, GoMap):
        fr[I['n']] = ['map', sorted(x.d.items()), 0]
    else:
        raise Unsupported("range over %r" % (x,))


def _i_next(m, fr, I):
    it = m.value(fr, I['x'])
    if it[0] == 'str':
        s, i = it[1], it[2]
        if i >= len(s):
            fr[I['n']] = (False, 0, 0)
        else:
            it[2] += 1
            fr[I['n']] = (True, i, ord(s[i]))
    else:
        items, i = it[1], it[2]
        if i >= len(items):
            fr[I['n']] = (False, None, None)
        else:
            it[2] += 1
            fr[I['n']] = (True, items[i][0], items[i][1])


def _i_multiconvert(m, fr, I):
    _i_convert(m, fr, I)


def _i_defer(m, fr, I):
    c = I['call']
    args = [m.value(fr, a) for a in c['args']]
    if 'invoke' in c:
        recv = m.value(fr, c['recv'])
        fn = lambda a, recv=recv, nm=c['invoke']: m.invoke(recv, nm, a)
    else:
        f = c['fn']
        if f['k'] == 'b':
            fn = lambda a, nm=f['n'], c=c, I=I: m.builtin(nm, a, c, I)
        elif f['k'] == 'f':
            fn = lambda a, nm=f['n']: m.call(nm, a)
        else:
            fv = m.value(fr, f)
            fn = lambda a, fv=fv: m.call_value(fv, a)
    fr['$defers'].append((fn, args))


def _i_rundefers(m, fr, I):
    d = fr.get('$defers')
    while d:
        fn, args = d.pop()
        fn(args)


_DISPATCH = {
    'Alloc': _i_alloc, 'BinOp': _i_binop, 'UnOp': _i_unop, 'Call': _i_call, 'Extract': _i_extract,
    'FieldAddr': _i_fieldaddr, 'Field': _i_field, 'IndexAddr': _i_indexaddr, 'Index': _i_index,
    'Store': _i_store, 'Convert': _i_convert, 'ChangeType': _i_changetype, 'MakeInterface': _i_makeinterface,
    'ChangeInterface': _i_changeinterface, 'TypeAssert': _i_typeassert, 'Slice': _i_slice,
    'SliceToArrayPointer': _i_slice2arrptr, 'MakeSlice': _i_makeslice, 'MakeClosure': _i_makeclosure,
    'Lookup': _i_lookup, 'MakeMap': _i_makemap, 'MapUpdate': _i_mapupdate, 'Range': _i_range, 'Next': _i_next,
    'MultiConvert': _i_multiconvert, 'Defer': _i_defer, 'RunDefers': _i_rundefers,
}

Machine.binop = _binop
Machine.equal_values = _equal_values
Machine.do_slice = _do_slice
