"""Obligation discharge: SMT-LIB2 text is generated (via z3's printer) from the term
DAG, hashed, and decided by external solver processes in parallel
(z3-new 5.1 default; cvc5 / z3 4.8.12 as cross-checks)."""
import hashlib
import os
import re
import subprocess
import tempfile
import time
import concurrent.futures as cf
import z3
from . import term as tm
from .term import T

SOLVERS = {
    'z3new': ['z3-new', '-smt2'],
    'z3new2': ['z3-new', '-smt2', 'smt.arith.solver=2'],
    'z3old': ['z3', '-smt2'],
    'cvc5': ['cvc5', '--lang=smt2', '--produce-models'],
}


class Obligation:
    def __init__(self, name, assumptions, goal, mode='bv', exact=True, timeout=600, solvers=None, extra_int=None,
                 expect='unsat', meta=None, int_goal=None, int_opts=None):
        """prove: assumptions => goal.  mode 'bv' or 'int'.
        expect='sat' turns this into a reachability witness (must be satisfiable)."""
        self.name = name
        self.assumptions = assumptions
        self.goal = goal
        self.mode = mode
        self.exact = exact
        self.timeout = timeout
        self.solvers = solvers
        self.int_opts = int_opts or {}
        self.int_goal = int_goal  # callable(IntLower) -> z3 Bool goal (for goals over opaque products)
        self.extra_int = extra_int  # callable(IntLower) -> list of extra z3 constraints (lemmas/witnesses)
        self.expect = expect
        self.meta = meta or {}
        self.smt = None
        self.hash = None
        self.result = None
        self.model = None
        self.time = 0.0
        self.solver = None
        self.trivial = False

    def build(self):
        if self.mode == 'z3':
            # assumptions / goal are z3 formulas already (polynomial domain)
            s = z3.Solver()
            for a in self.assumptions:
                s.add(a)
            g = self.goal
            if isinstance(g, bool):
                g = z3.BoolVal(g)
                self.trivial = True
            s.add(z3.Not(g) if self.expect == 'unsat' else g)
            self._solver = s
            self.smt = s.to_smt2().replace('(set-info :status unknown)\n', '') + '(get-model)\n'
            self.hash = hashlib.sha256(self.smt.encode()).hexdigest()[:16]
            return self
        goal = True if (self.goal is None) else self.goal
        neg = tm.bnot(goal) if self.expect == 'unsat' else goal
        if self.int_goal is not None:
            neg = True  # the goal is supplied as a z3 formula over the lowering
        else:
            self.trivial = not isinstance(neg, T)
        s = z3.Solver()
        if self.mode == 'int' and self.int_goal is None and self.extra_int is None:
            try:
                Lp = tm.IntLower()
                for a in self.assumptions:
                    if isinstance(a, T):
                        Lp.lo(a)
                if isinstance(neg, T):
                    Lp.lo(neg)
            except tm.IntBlastUnsupported as e:
                self.mode = 'bv'
                self.meta['int_blast_fallback'] = str(e)[:200]
        if self.mode == 'bv':
            L = tm.BVLower()
            for a in self.assumptions:
                if isinstance(a, T):
                    s.add(L.lo(a))
                elif not a:
                    s.add(z3.BoolVal(False))
            if isinstance(neg, T):
                s.add(L.lo(neg))
            elif not neg:
                s.add(z3.BoolVal(False))
        else:
            L = tm.IntLower()
            for k_, v_ in self.int_opts.items():
                setattr(L, k_, v_)
            zs = []
            for a in self.assumptions:
                if isinstance(a, T):
                    zs.append(L.lo(a))
                elif not a:
                    zs.append(z3.BoolVal(False))
            if isinstance(neg, T):
                zs.append(L.lo(neg))
            elif not neg:
                zs.append(z3.BoolVal(False))
            if self.extra_int is not None:
                zs += self.extra_int(L)
            if self.int_goal is not None:
                g = self.int_goal(L)
                zs.append(z3.Not(g) if self.expect == 'unsat' else g)
            for c in L.side:
                s.add(c)
            for c in zs:
                s.add(c)
            if not L.exact:
                self.exact = False
        self._solver = s
        txt = s.to_smt2()
        # z3 emits (check-sat); add get-model
        txt = txt.replace('(set-info :status unknown)\n', '')
        self.smt = txt + '(get-model)\n'
        self.hash = hashlib.sha256(self.smt.encode()).hexdigest()[:16]
        return self


def inprocess(o, timeout_ms=3000):
    """try to decide an obligation with the in-process z3 (same 5.1 library as z3-new); used for the
    thousands of tiny path obligations where process start-up would dominate"""
    s = getattr(o, '_solver', None)
    if s is None:
        return False
    s.set('timeout', timeout_ms)
    t0 = time.time()
    r = str(s.check())
    o.time = time.time() - t0
    if r == 'unsat':
        o.result, o.solver, o.model, o.msg = 'unsat', 'z3py', None, ''
        return True
    if r == 'sat':
        mdl = s.model()
        model = {}
        for d in mdl.decls():
            if d.arity() == 0:
                v = mdl[d]
                try:
                    model[d.name()] = v.as_long() if not z3.is_bool(v) else z3.is_true(v)
                except Exception:
                    pass
        o.result, o.solver, o.model, o.msg = 'sat', 'z3py', model, ''
        return True
    return False


def _parse_model(out):
    """parse (define-fun name () Sort value) entries for BitVec/Int/Bool constants"""
    model = {}
    for mm in re.finditer(r'\(define-fun\s+(\|[^|]*\||[^\s()]+)\s+\(\)\s+(\(_ BitVec \d+\)|Int|Bool)\s+([^\n]*?)\)\s*(?=\(define-fun|\)\s*$|\n)', out, re.S):
        name, sort, val = mm.group(1).strip('|'), mm.group(2), mm.group(3).strip()
        try:
            if val.startswith('#x'):
                model[name] = int(val[2:], 16)
            elif val.startswith('#b'):
                model[name] = int(val[2:], 2)
            elif val in ('true', 'false'):
                model[name] = val == 'true'
            elif val.startswith('(- '):
                model[name] = -int(val[3:].rstrip(')').strip())
            elif val.startswith('(_ bv'):
                model[name] = int(val.split()[1][2:])
            else:
                model[name] = int(val)
        except ValueError:
            pass
    return model


def _classify(out):
    first = out.strip().split('\n', 1)[0].strip() if out.strip() else ''
    nerr = out.count('(error')
    if first == 'unsat':
        # the only tolerated error is the one (get-model) raises after unsat
        if nerr > 1:
            return 'unknown', None, out[:500]
        return 'unsat', None, ''
    if first == 'sat':
        if nerr > 0:
            return 'unknown', None, out[:500]
        return 'sat', _parse_model(out), ''
    return 'unknown', None, out[:300]


def _cmd(solver, timeout, path):
    cmd = list(SOLVERS[solver])
    if solver.startswith('z3'):
        cmd.append('-T:%d' % int(timeout))
    else:
        cmd.append('--tlimit=%d' % int(timeout * 1000))
    cmd.append(path)
    return cmd


def run_solver(smt_text, solver='z3new', timeout=60, workdir=None):
    r = race(smt_text, (solver,), timeout, workdir)
    return r[0], r[1], r[2], r[3]


def race(smt_text, solvers, timeout=60, workdir=None):
    """run all solvers concurrently on the same problem; first definite answer wins"""
    procs = []
    paths = []
    t0 = time.time()
    try:
        for sv in solvers:
            fd, path = tempfile.mkstemp(suffix='.smt2', dir=workdir)
            with os.fdopen(fd, 'w') as fh:
                if sv == 'cvc5':
                    fh.write('(set-logic ALL)\n')
                fh.write(smt_text)
            paths.append(path)
            outp = path + '.out'
            fo = open(outp, 'w')
            p = subprocess.Popen(_cmd(sv, timeout, path), stdout=fo, stderr=subprocess.STDOUT)
            procs.append((sv, p, outp, fo))
        pending = list(procs)
        last = ('unknown', None, '', None)
        while pending:
            for ent in list(pending):
                sv, p, outp, fo = ent
                if p.poll() is not None:
                    pending.remove(ent)
                    fo.close()
                    out = open(outp).read()
                    r, model, msg = _classify(out)
                    if r in ('sat', 'unsat'):
                        return r, model, time.time() - t0, msg, sv
                    last = (r, None, msg or 'timeout', sv)
            if time.time() - t0 > timeout + 15:
                break
            time.sleep(0.02)
        return last[0], None, time.time() - t0, last[2], last[3]
    finally:
        for sv, p, outp, fo in procs:
            if p.poll() is None:
                p.kill()
                p.wait()
            try:
                fo.close()
            except Exception:
                pass
            for f in (outp,):
                try:
                    os.unlink(f)
                except OSError:
                    pass
        for f in paths:
            try:
                os.unlink(f)
            except OSError:
                pass


def discharge(obls, jobs=16, portfolio=('z3new',), workdir=None, log=None):
    """decide all obligations in parallel. Each obligation is tried with the portfolio in order
    until a definite answer."""
    for o in obls:
        if o.smt is None:
            o.build()
    keep = os.environ.get('VERIF_KEEP_SMT')
    if keep:
        os.makedirs(keep, exist_ok=True)
        for o in obls:
            fn = re.sub(r'[^A-Za-z0-9_.=-]', '_', o.name)[:150]
            open(os.path.join(keep, fn + '.smt2'), 'w').write(o.smt)
    cache = {}

    def work(o):
        if o.hash in cache:
            return cache[o.hash]
        res = race(o.smt, tuple(o.solvers or portfolio), o.timeout, workdir)
        cache[o.hash] = res
        return res

    groups = {}
    for o in obls:
        groups.setdefault(o.hash, []).append(o)
    reps = sorted((g[0] for g in groups.values()), key=lambda o: -o.timeout)
    with cf.ThreadPoolExecutor(max_workers=jobs) as ex:
        futs = {ex.submit(work, o): o for o in reps}
        for f in cf.as_completed(futs):
            rep = futs[f]
            res = f.result()
            for o in groups[rep.hash]:        # textually identical problems are solved once
                o.result, o.model, o.time, o.msg, o.solver = res
                if o is not rep:
                    o.time = 0.0
                if log:
                    log(o)
    return obls
