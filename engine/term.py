"""Hash-consed term DAG with two lowerings: exact bit-vectors (z3 BV) and
linear integer arithmetic with interval analysis ("int-blast").

Values handled by the executor are either concrete Python ints / bools or T.
All constructors fold constants so fully concrete execution never allocates
terms (this is the translator-validation fast path).
"""
import sys
import z3

sys.setrecursionlimit(200000)

_table = {}
_next_id = [0]


class T:
    __slots__ = ('op', 'args', 'w', 'val', 'taint', 'id', 'ub', 'ones', '__weakref__')

    def __init__(self, op, args, w, val):
        self.op = op
        self.args = args
        self.w = w  # 0 = Bool
        self.val = val
        self.id = _next_id[0]
        _next_id[0] += 1
        t = 0
        for a in args:
            t |= a.taint
        self.taint = t
        self.ub = None
        self.ones = None

    def __repr__(self):
        return show(self, 3)

    def __hash__(self):
        return self.id

    def __eq__(self, other):
        return self is other

    def __bool__(self):
        raise TypeError("symbolic term used as Python bool: %r" % (self,))


def show(t, depth=3):
    if not isinstance(t, T):
        return hex(t) if isinstance(t, int) and not isinstance(t, bool) else str(t)
    if t.op == 'const':
        return hex(t.val) if t.w else str(t.val)
    if t.op == 'var':
        return str(t.val)
    if depth == 0:
        return '..'
    extra = '' if t.val is None else '[%s]' % (t.val,)
    return '(%s%s %s)' % (t.op, extra, ' '.join(show(a, depth - 1) for a in t.args))


def mk(op, args, w, val=None):
    key = (op, w, val, tuple(a.id for a in args))
    t = _table.get(key)
    if t is None:
        t = T(op, tuple(args), w, val)
        _table[key] = t
        _bounds(t)
    return t


def reset_terms():
    _table.clear()


def mask(w):
    return (1 << w) - 1


def const(v, w):
    return mk('const', (), w, v & mask(w))


def boolconst(b):
    return mk('const', (), 0, bool(b))


def var(name, w, taint=0):
    t = mk('var', (), w, name)
    if taint:
        t.taint |= taint
    return t


def boolvar(name):
    return mk('var', (), 0, name)


def is_sym(x):
    return isinstance(x, T)


def lift(x, w):
    if isinstance(x, T):
        assert x.w == w, (x, x.w, w)
        return x
    if w == 0:
        return boolconst(x)
    return const(x, w)


def is_const(t):
    return not isinstance(t, T) or t.op == 'const'


def cval(t):
    return t.val if isinstance(t, T) else t


def _conc(x):
    """return python value if x is concrete (int/bool or const term) else None"""
    if not isinstance(x, T):
        return x
    if x.op == 'const':
        return x.val
    return None


# ---------------------------------------------------------------- bounds
def _bounds(t):
    w = t.w
    if w == 0:
        return
    full = mask(w)
    op = t.op
    a = t.args
    if op == 'const':
        t.ub = t.val
        t.ones = t.val
        return
    ub = full
    ones = full
    if op == 'var':
        pass
    elif op == 'zext':
        ub, ones = a[0].ub, a[0].ones
    elif op == 'extract':
        hi, lo = t.val
        ones = (a[0].ones >> lo) & full
        ub = min(full, a[0].ub >> lo) if hi == a[0].w - 1 else full
    elif op == 'concat':
        ones = (a[0].ones << a[1].w) | a[1].ones
        ub = (a[0].ub << a[1].w) | mask(a[1].w) if a[1].ub == mask(a[1].w) else (a[0].ub << a[1].w) + a[1].ub
    elif op == 'and':
        ones = a[0].ones & a[1].ones
        ub = min(a[0].ub, a[1].ub)
    elif op == 'or':
        ones = a[0].ones | a[1].ones
        ub = min(full, a[0].ub + a[1].ub)  # x|y <= x+y
    elif op == 'xor':
        ones = a[0].ones | a[1].ones
        ub = min(full, a[0].ub + a[1].ub)
    elif op == 'add':
        s = a[0].ub + a[1].ub
        if s <= full:
            ub = s
            ones = mask(s.bit_length())
    elif op == 'mul':
        s = a[0].ub * a[1].ub
        if s <= full:
            ub = s
            ones = mask(s.bit_length())
    elif op == 'shl':
        k = _conc(a[1])
        if k is not None and k < w:
            ones = (a[0].ones << k) & full
            s = a[0].ub << k
            ub = s if s <= full else full
    elif op == 'lshr':
        k = _conc(a[1])
        if k is not None:
            ones = a[0].ones >> k
            ub = a[0].ub >> k
        else:
            ones = mask(a[0].ones.bit_length())
            ub = a[0].ub
    elif op == 'ite':
        ones = a[1].ones | a[2].ones
        ub = max(a[1].ub, a[2].ub)
    elif op in ('udiv',):
        ub = a[0].ub
        ones = mask(ub.bit_length())
    elif op in ('urem',):
        ub = min(a[0].ub, max(a[1].ub - 1, 0)) if a[1].ub > 0 else a[0].ub
        ones = mask(ub.bit_length())
    elif op == 'b2i':
        ub, ones = 1, 1
    t.ones = ones & full
    t.ub = min(ub, t.ones)


# ---------------------------------------------------------------- BV ops
def _ite_consts(t):
    """if t is ite(c, K1, K2) with const arms return (c, K1, K2)"""
    if isinstance(t, T) and t.op == 'ite' and t.args[1].op == 'const' and t.args[2].op == 'const':
        return t.args[0], t.args[1].val, t.args[2].val
    return None


def _binop_py(op, x, y, w):
    m = mask(w)
    if op == 'add':
        return (x + y) & m
    if op == 'sub':
        return (x - y) & m
    if op == 'mul':
        return (x * y) & m
    if op == 'and':
        return x & y
    if op == 'or':
        return x | y
    if op == 'xor':
        return x ^ y
    if op == 'shl':
        return (x << y) & m if y < w else 0
    if op == 'lshr':
        return x >> y if y < w else 0
    if op == 'ashr':
        sx = x - (1 << w) if x >> (w - 1) else x
        return (sx >> min(y, w)) & m
    if op == 'udiv':
        return x // y if y else m
    if op == 'urem':
        return x % y if y else x
    if op == 'sdiv' or op == 'srem':
        sx = x - (1 << w) if x >> (w - 1) else x
        sy = y - (1 << w) if y >> (w - 1) else y
        if sy == 0:
            return (m if sx >= 0 else 1) if op == 'sdiv' else x
        q = abs(sx) // abs(sy)
        if (sx < 0) != (sy < 0):
            q = -q
        r = sx - q * sy
        return (q if op == 'sdiv' else r) & m
    raise ValueError(op)


def bv(op, x, y, w):
    """binary bit-vector op on int|T at width w"""
    cx, cy = _conc(x), _conc(y)
    if cx is not None and cy is not None:
        return _binop_py(op, cx, cy, w)
    full = mask(w)
    # identities
    if op == 'add':
        if cx == 0:
            return y
        if cy == 0:
            return x
    elif op == 'sub':
        if cy == 0:
            return x
        if x is y:
            return 0
    elif op == 'mul':
        if cx == 0 or cy == 0:
            return 0
        if cx == 1:
            return y
        if cy == 1:
            return x
        # bit * allones -> mask select
        if cy == full and isinstance(x, T) and x.ub <= 1:
            return ite(eq(x, 1, w), full, 0, w)
        if cx == full and isinstance(y, T) and y.ub <= 1:
            return ite(eq(y, 1, w), full, 0, w)
    elif op == 'and':
        if cx == 0 or cy == 0:
            return 0
        if cx == full:
            return y
        if cy == full:
            return x
        if x is y:
            return x
        # and(ite(c,ALL,0), y) -> ite(c,y,0)
        for p, q in ((x, y), (y, x)):
            ic = _ite_consts(p)
            if ic is not None and not (isinstance(q, T) and q.op == 'const') and _conc(q) is None:
                c, k1, k2 = ic
                if k1 == full and k2 == 0:
                    return ite(c, q, 0, w)
                if k1 == 0 and k2 == full:
                    return ite(c, 0, q, w)
        # and with known-zero bits
        if cy is not None and isinstance(x, T) and (x.ones & cy) == x.ones:
            return x
        if cx is not None and isinstance(y, T) and (y.ones & cx) == y.ones:
            return y
    elif op == 'or':
        if cx == 0:
            return y
        if cy == 0:
            return x
        if cx == full or cy == full:
            return full
        if x is y:
            return x
        # or(ite(c,y,0), ite(c,0,z)) -> ite(c,y,z)
        if isinstance(x, T) and isinstance(y, T) and x.op == 'ite' and y.op == 'ite' and x.args[0] is y.args[0]:
            x1, x2, y1, y2 = x.args[1], x.args[2], y.args[1], y.args[2]
            if _conc(x2) == 0 and _conc(y1) == 0:
                return ite(x.args[0], x1, y2, w)
            if _conc(x1) == 0 and _conc(y2) == 0:
                return ite(x.args[0], y1, x2, w)
    elif op == 'xor':
        if cx == 0:
            return y
        if cy == 0:
            return x
        if x is y:
            return 0
    elif op in ('shl', 'lshr', 'ashr'):
        if cy == 0:
            return x
        if cx == 0:
            return 0
        if cy is not None and cy >= w and op != 'ashr':
            return 0
        if op == 'lshr' and cy is not None and isinstance(x, T):
            if (x.ones >> cy) == 0:
                return 0
            # lshr(zext/concat) -> extract
            return zext(extract(x, w - 1, cy), w)
        if op == 'shl' and cy is not None and isinstance(x, T):
            return concat(extract(x, w - 1 - cy, 0), 0, cy)
    elif op in ('udiv', 'urem'):
        if cy is not None and cy != 0 and (cy & (cy - 1)) == 0:
            k = cy.bit_length() - 1
            if op == 'udiv':
                return bv('lshr', x, k, w)
            return bv('and', x, cy - 1, w)
    # distribute over ite with const arms
    if cy is not None:
        ic = _ite_consts(x)
        if ic is not None:
            c, k1, k2 = ic
            return ite(c, _binop_py(op, k1, cy, w), _binop_py(op, k2, cy, w), w)
    if cx is not None:
        ic = _ite_consts(y)
        if ic is not None:
            c, k1, k2 = ic
            return ite(c, _binop_py(op, cx, k1, w), _binop_py(op, cx, k2, w), w)
    X, Y = lift(x, w), lift(y, w)
    if op in ('add', 'and', 'or', 'xor') and X.id > Y.id:  # (mul keeps operand order: opaque products are per ordered pair)
        X, Y = Y, X
    return mk(op, (X, Y), w)


def bvnot(x, w):
    c = _conc(x)
    if c is not None:
        return (~c) & mask(w)
    if x.op == 'not':
        return x.args[0]
    ic = _ite_consts(x)
    if ic is not None:
        return ite(ic[0], (~ic[1]) & mask(w), (~ic[2]) & mask(w), w)
    return mk('not', (x,), w)


def bvneg(x, w):
    return bv('sub', 0, x, w)


def extract(x, hi, lo):
    """bits hi..lo inclusive"""
    c = _conc(x)
    nw = hi - lo + 1
    if c is not None:
        return (c >> lo) & mask(nw)
    if lo == 0 and hi == x.w - 1:
        return x
    if (x.ones >> lo) & mask(nw) == 0:
        return 0
    op = x.op
    if op == 'extract':
        l0 = x.val[1]
        return extract(x.args[0], hi + l0, lo + l0)
    if op == 'zext':
        iw = x.args[0].w
        if hi < iw:
            return extract(x.args[0], hi, lo)
        if lo >= iw:
            return 0
        return zext(extract(x.args[0], iw - 1, lo), nw)
    if op == 'concat':
        a, b = x.args
        if hi < b.w:
            return extract(b, hi, lo)
        if lo >= b.w:
            return extract(a, hi - b.w, lo - b.w)
        return concat_w(extract(a, hi - b.w, 0), hi - b.w + 1, extract(b, b.w - 1, lo), b.w - lo)
    if op == 'ite':
        ic = _ite_consts(x)
        if ic is not None:
            return ite(ic[0], (ic[1] >> lo) & mask(nw), (ic[2] >> lo) & mask(nw), nw)
    if op in ('and', 'or', 'xor') and nw <= 8 and x.w <= 64:
        # push byte extraction through bitwise ops (byte (de)serialisation round trips)
        a, b = x.args
        ea, eb = extract(a, hi, lo), extract(b, hi, lo)
        return bv(op, ea, eb, nw)
    return mk('extract', (x,), nw, (hi, lo))


def zext(x, w):
    c = _conc(x)
    if c is not None:
        return c
    if x.w == w:
        return x
    assert x.w < w, (x.w, w)
    if x.op == 'zext':
        return zext(x.args[0], w)
    ic = _ite_consts(x)
    if ic is not None:
        return ite(ic[0], ic[1], ic[2], w)
    return mk('zext', (x,), w)


def sext(x, fromw, w):
    c = _conc(x)
    if c is not None:
        if c >> (fromw - 1):
            c |= mask(w) ^ mask(fromw)
        return c
    if fromw == w:
        return x
    if (x.ones >> (fromw - 1)) == 0:
        return zext(x, w)
    return mk('sext', (x,), w)


def concat(hi, lo, lo_w):
    """hi:lo; lo has width lo_w (needed when lo is a python int); hi width from term or must be passed via zext beforehand"""
    ch, cl = _conc(hi), _conc(lo)
    if lo_w == 0:
        return hi
    if ch is not None and cl is not None:
        return (ch << lo_w) | cl
    if ch == 0 and isinstance(lo, T):
        raise ValueError("concat with int hi of unknown width; use concat_w")
    H = hi if isinstance(hi, T) else None
    if H is None:
        raise ValueError("concat needs term hi or use concat_w")
    L = lift(lo, lo_w)
    # merge adjacent extracts
    if H.op == 'extract' and L.op == 'extract' and H.args[0] is L.args[0] and H.val[1] == L.val[0] + 1:
        return extract(H.args[0], H.val[0], L.val[1])
    return mk('concat', (H, L), H.w + lo_w)


def concat_w(hi, hi_w, lo, lo_w):
    ch, cl = _conc(hi), _conc(lo)
    if hi_w == 0:
        return lo
    if lo_w == 0:
        return hi
    if ch is not None and cl is not None:
        return (ch << lo_w) | cl
    if ch == 0:
        return zext(lift(lo, lo_w), hi_w + lo_w)
    return concat(lift(hi, hi_w), lo, lo_w)


def trunc(x, w):
    return extract(x, w - 1, 0)


def convert(x, fromw, tow, signed_from):
    if tow == fromw:
        return x
    if tow < fromw:
        return trunc(x, tow)
    if signed_from:
        return sext(x, fromw, tow)
    return zext(x, tow)


# ---------------------------------------------------------------- Bool ops
def ite(c, a, b, w):
    cc = _conc(c)
    if cc is not None:
        return a if cc else b
    if a is b:
        return a
    ca, cb = _conc(a), _conc(b)
    if ca is not None and cb is not None and ca == cb:
        return a
    if w == 0:
        if ca is True and cb is False:
            return c
        if ca is False and cb is True:
            return bnot(c)
        if ca is True:
            return bor(c, b)
        if ca is False:
            return band(bnot(c), b)
        if cb is True:
            return bor(bnot(c), a)
        if cb is False:
            return band(c, a)
    if c.op == 'bnot':
        return ite(c.args[0], b, a, w)
    A, B = lift(a, w), lift(b, w)
    # ite(c, ite(c,x,y), z) -> ite(c,x,z)
    if A.op == 'ite' and A.args[0] is c:
        A = A.args[1]
    if B.op == 'ite' and B.args[0] is c:
        B = B.args[2]
    if A is B:
        return A
    return mk('ite', (c, A, B), w)


def bnot(x):
    c = _conc(x)
    if c is not None:
        return not c
    if x.op == 'bnot':
        return x.args[0]
    return mk('bnot', (x,), 0)


def band(x, y):
    cx, cy = _conc(x), _conc(y)
    if cx is not None:
        return y if cx else False
    if cy is not None:
        return x if cy else False
    if x is y:
        return x
    if (x.op == 'bnot' and x.args[0] is y) or (y.op == 'bnot' and y.args[0] is x):
        return False
    if x.id > y.id:
        x, y = y, x
    return mk('band', (x, y), 0)


def bor(x, y):
    cx, cy = _conc(x), _conc(y)
    if cx is not None:
        return True if cx else y
    if cy is not None:
        return True if cy else x
    if x is y:
        return x
    if (x.op == 'bnot' and x.args[0] is y) or (y.op == 'bnot' and y.args[0] is x):
        return True
    if x.id > y.id:
        x, y = y, x
    return mk('bor', (x, y), 0)


def band_all(xs):
    r = True
    for x in xs:
        r = band(r, x)
    return r


def bor_all(xs):
    r = False
    for x in xs:
        r = bor(r, x)
    return r


def implies(a, b):
    return bor(bnot(a), b)


def eq(x, y, w):
    cx, cy = _conc(x), _conc(y)
    if cx is not None and cy is not None:
        return cx == cy
    if x is y:
        return True
    if w == 0:
        if cx is not None:
            return y if cx else bnot(y)
        if cy is not None:
            return x if cy else bnot(x)
        X, Y = x, y
        if X.id > Y.id:
            X, Y = Y, X
        return mk('beq', (X, Y), 0)
    # range-based refutation
    for p, q in ((x, cy), (y, cx)):
        if q is not None and isinstance(p, T):
            if q > p.ub or (q & ~p.ones):
                return False
            ic = _ite_consts(p)
            if ic is not None:
                c, k1, k2 = ic
                if k1 == q and k2 != q:
                    return c
                if k2 == q and k1 != q:
                    return bnot(c)
                if k1 != q and k2 != q:
                    return False
            if p.op == 'zext':
                iw = p.args[0].w
                return eq(p.args[0], q, iw) if q <= mask(iw) else False
            if p.op == 'b2i':
                return p.args[0] if q == 1 else (bnot(p.args[0]) if q == 0 else False)
    X, Y = lift(x, w), lift(y, w)
    if X.id > Y.id:
        X, Y = Y, X
    return mk('eq', (X, Y), 0)


def _cmp(op, x, y, w):
    cx, cy = _conc(x), _conc(y)
    if cx is not None and cy is not None:
        if op in ('slt', 'sle'):
            sx = cx - (1 << w) if cx >> (w - 1) else cx
            sy = cy - (1 << w) if cy >> (w - 1) else cy
            return sx < sy if op == 'slt' else sx <= sy
        return cx < cy if op == 'ult' else cx <= cy
    if x is y:
        return op in ('ule', 'sle')
    if op == 'ult':
        if cy == 0:
            return False
        if cy is not None and isinstance(x, T) and x.ub < cy:
            return True
        if cx is not None and isinstance(y, T) and y.ub <= cx:
            return False
    if op == 'ule':
        if cx == 0:
            return True
        if cy is not None and isinstance(x, T) and x.ub <= cy:
            return True
        if cx is not None and isinstance(y, T) and y.ub < cx:
            return False
    if op in ('slt', 'sle'):
        # if both known non-negative in signed reading use unsigned
        hb = 1 << (w - 1)
        xn = (cx is not None and cx < hb) or (isinstance(x, T) and x.ub < hb)
        yn = (cy is not None and cy < hb) or (isinstance(y, T) and y.ub < hb)
        if xn and yn:
            return _cmp('ult' if op == 'slt' else 'ule', x, y, w)
    return mk(op, (lift(x, w), lift(y, w)), 0)


def ult(x, y, w):
    return _cmp('ult', x, y, w)


def ule(x, y, w):
    return _cmp('ule', x, y, w)


def slt(x, y, w):
    return _cmp('slt', x, y, w)


def sle(x, y, w):
    return _cmp('sle', x, y, w)


def b2i(b, w):
    """bool -> bitvector 0/1"""
    c = _conc(b)
    if c is not None:
        return 1 if c else 0
    return ite(b, 1, 0, w)


def uf(name, args, w):
    """uninterpreted function application; args are terms; result width w (0=Bool)"""
    return mk('uf', tuple(args), w, name)


# ---------------------------------------------------------------- intrinsics (math/bits)
def add64(x, y, c):
    n = bv('add', bv('add', zext(lift(x, 64), 65) if is_sym(x) else x, zext(lift(y, 64), 65) if is_sym(y) else y, 65),
           zext(lift(c, 64), 65) if is_sym(c) else c, 65)
    return extract(n, 63, 0), zext_any(extract(n, 64, 64), 1, 64)


def sub64(x, y, b):
    n = bv('sub', bv('sub', zext(lift(x, 64), 65) if is_sym(x) else x, zext(lift(y, 64), 65) if is_sym(y) else y, 65),
           zext(lift(b, 64), 65) if is_sym(b) else b, 65)
    return extract(n, 63, 0), zext_any(extract(n, 64, 64), 1, 64)


def mul64(x, y):
    n = bv('mul', zext(lift(x, 64), 128) if is_sym(x) else x, zext(lift(y, 64), 128) if is_sym(y) else y, 128)
    return zext_any(extract(n, 127, 64), 64, 64), extract(n, 63, 0)


def zext_any(x, fromw, w):
    if isinstance(x, T):
        return zext(x, w)
    return x


# ---------------------------------------------------------------- z3 BV lowering
class BVLower:
    def __init__(self, ctx=None):
        self.cache = {}
        self.ufs = {}
        self.ctx = ctx

    def var(self, t):
        if t.w == 0:
            return z3.Bool(t.val, self.ctx)
        return z3.BitVec(t.val, t.w, self.ctx)

    def lo(self, t):
        if not isinstance(t, T):
            raise TypeError("lower of non-term %r" % (t,))
        r = self.cache.get(t.id)
        if r is not None:
            return r
        # iterative post-order to avoid deep recursion
        stack = [t]
        cache = self.cache
        while stack:
            n = stack[-1]
            if n.id in cache:
                stack.pop()
                continue
            pend = [a for a in n.args if a.id not in cache]
            if pend:
                stack.extend(pend)
                continue
            stack.pop()
            cache[n.id] = self._one(n, [cache[a.id] for a in n.args])
        return cache[t.id]

    def _one(self, t, a):
        op = t.op
        w = t.w
        if op == 'const':
            return z3.BoolVal(t.val, self.ctx) if w == 0 else z3.BitVecVal(t.val, w, self.ctx)
        if op == 'var':
            return self.var(t)
        if op == 'add':
            return a[0] + a[1]
        if op == 'sub':
            return a[0] - a[1]
        if op == 'mul':
            return a[0] * a[1]
        if op == 'and':
            return a[0] & a[1]
        if op == 'or':
            return a[0] | a[1]
        if op == 'xor':
            return a[0] ^ a[1]
        if op == 'not':
            return ~a[0]
        if op == 'shl':
            return a[0] << a[1]
        if op == 'lshr':
            return z3.LShR(a[0], a[1])
        if op == 'ashr':
            return a[0] >> a[1]
        if op == 'udiv':
            return z3.UDiv(a[0], a[1])
        if op == 'urem':
            return z3.URem(a[0], a[1])
        if op == 'sdiv':
            return a[0] / a[1]
        if op == 'srem':
            return z3.SRem(a[0], a[1])
        if op == 'extract':
            return z3.Extract(t.val[0], t.val[1], a[0])
        if op == 'zext':
            return z3.ZeroExt(w - t.args[0].w, a[0])
        if op == 'sext':
            return z3.SignExt(w - t.args[0].w, a[0])
        if op == 'concat':
            return z3.Concat(a[0], a[1])
        if op == 'ite':
            return z3.If(a[0], a[1], a[2])
        if op == 'eq' or op == 'beq':
            return a[0] == a[1]
        if op == 'ult':
            return z3.ULT(a[0], a[1])
        if op == 'ule':
            return z3.ULE(a[0], a[1])
        if op == 'slt':
            return a[0] < a[1]
        if op == 'sle':
            return a[0] <= a[1]
        if op == 'bnot':
            return z3.Not(a[0])
        if op == 'band':
            return z3.And(a[0], a[1])
        if op == 'bor':
            return z3.Or(a[0], a[1])
        if op == 'uf':
            key = (t.val, tuple(x.w for x in t.args), w)
            f = self.ufs.get(key)
            if f is None:
                sorts = [z3.BitVecSort(x.w, self.ctx) if x.w else z3.BoolSort(self.ctx) for x in t.args]
                sorts.append(z3.BitVecSort(w, self.ctx) if w else z3.BoolSort(self.ctx))
                f = z3.Function('%s__%s' % (t.val, '_'.join(str(x.w) for x in t.args)), *sorts)
                self.ufs[key] = f
            return f(*a)
        raise ValueError("BV lower: unknown op %s" % op)


# ---------------------------------------------------------------- Int lowering (int-blast with opaque products)
class IntLower:
    """Lower a BV term DAG to linear integer arithmetic.

    Every BV term t of width w is mapped to an Int expression whose value is the
    unsigned value of t.  Wrap-arounds are introduced only where the interval
    analysis cannot exclude them, as fresh (q, r) decompositions.  A product of
    two non-constant terms becomes an opaque Int variable P(x,y) constrained to
    [0, ub(x)*ub(y)] -- an over-approximation, hence sound for `unsat` only.
    """

    def __init__(self):
        self.cache = {}
        self.side = []  # side constraints (z3 Bool)
        self.n = 0
        self.prods = {}  # (idx,idy) -> (var, xterm, yterm)
        self.splits = {}
        self.vars = {}
        self.exact = True  # becomes False when an opaque product is introduced
        self.opaque_consts = set()  # constants whose products with a variable are kept opaque (bilinear form only)
        self.ordered_products = True  # P(x,y) and P(y,x) distinct opaque variables (sound over-approximation; probed faster)
        self.bounds = {}  # z3 id -> (lb, ub) python ints for generated Int exprs

    def fresh(self, p):
        self.n += 1
        return z3.Int('%s!%d' % (p, self.n))

    def lo(self, t):
        if not isinstance(t, T):
            raise TypeError("lower of non-term %r" % (t,))
        stack = [t]
        cache = self.cache
        while stack:
            n = stack[-1]
            if n.id in cache:
                stack.pop()
                continue
            deps = [x for _, x in self._lin(n)] if n.op in ('add', 'sub') else n.args
            pend = [a for a in deps if a.id not in cache]
            if pend:
                stack.extend(pend)
                continue
            stack.pop()
            cache[n.id] = self._one(n)
        return cache[t.id]

    def split(self, t_id, e, ub, k):
        """return (q, r) with e == q*2^k + r, 0<=r<2^k (e has upper bound ub, lower bound 0)"""
        key = (t_id, k)
        s = self.splits.get(key)
        if s is None:
            if ub < (1 << k):
                s = (z3.IntVal(0), e)
            else:
                q, r = self.fresh('q'), self.fresh('r')
                self.side += [e == q * (1 << k) + r, r >= 0, r < (1 << k), q >= 0, q <= (ub >> k)]
                s = (q, r)
            self.splits[key] = s
        return s

    def _wrap(self, t, e, lo_b, hi_b):
        """reduce Int expr e (with bounds lo_b..hi_b) modulo 2^w"""
        w = t.w
        M = 1 << w
        if lo_b >= 0 and hi_b < M:
            return e
        q, r = self.fresh('wq'), self.fresh('wr')
        self.side += [e == q * M + r, r >= 0, r < M, q >= (lo_b // M), q <= (hi_b // M)]
        return r

    def _lin(self, t):
        """flatten add/sub chains of the same width: returns list of (sign, term)"""
        out = []
        stack = [(1, t)]
        w = t.w
        while stack:
            sg, n = stack.pop()
            if n.op in ('add', 'sub') and n.w == w and (n is t or n.id not in self.cache):  # noqa
                stack.append((sg, n.args[0]))
                stack.append((sg if n.op == 'add' else -sg, n.args[1]))
            else:
                out.append((sg, n))
        return out

    def _one(self, t):
        op = t.op
        w = t.w
        A = t.args
        c = self.cache
        if op == 'const':
            return z3.BoolVal(t.val) if w == 0 else z3.IntVal(t.val)
        if op == 'var':
            if w == 0:
                return z3.Bool(t.val)
            v = z3.Int(t.val)
            if t.val not in self.vars:
                self.vars[t.val] = v
                self.side += [v >= 0, v <= mask(w)]
            return v
        if op in ('add', 'sub'):
            parts = self._lin(t)
            e = None
            lo_b = hi_b = 0
            for sg, n in parts:
                x = c[n.id]
                if sg > 0:
                    e = x if e is None else e + x
                    hi_b += n.ub
                else:
                    e = -x if e is None else e - x
                    lo_b -= n.ub
            return self._wrap(t, e, lo_b, hi_b)
        if op == 'mul':
            x, y = A
            if x.op == 'const' or y.op == 'const':
                k, v = (x, y) if x.op == 'const' else (y, x)
                if k.val in self.opaque_consts:
                    bv_ = v
                    while bv_.op == 'zext':
                        bv_ = bv_.args[0]
                    key = (bv_.id, ('c', k.val))
                    p = self.prods.get(key)
                    if p is None:
                        pv = self.fresh('cprod')
                        self.side += [pv >= 0, pv <= bv_.ub * k.val]
                        p = (pv, bv_, k)
                        self.prods[key] = p
                        self.exact = False
                    return self._wrap(t, p[0], 0, bv_.ub * k.val)
                e = c[v.id] * k.val
                return self._wrap(t, e, 0, v.ub * k.val)
            # strip zext
            bx, by = x, y
            while bx.op == 'zext':
                bx = bx.args[0]
            while by.op == 'zext':
                by = by.args[0]
            key = (bx.id, by.id) if self.ordered_products else (min(bx.id, by.id), max(bx.id, by.id))
            p = self.prods.get(key)
            if p is None:
                pv = self.fresh('prod')
                self.side += [pv >= 0, pv <= bx.ub * by.ub]
                p = (pv, bx, by)
                self.prods[key] = p
                self.exact = False
            return self._wrap(t, p[0], 0, bx.ub * by.ub)
        if op == 'zext':
            return c[A[0].id]
        if op == 'extract':
            hi, lo = t.val
            x = A[0]
            e = c[x.id]
            ub = x.ub
            if lo > 0:
                q, _ = self.split(x.id, e, ub, lo)
                e, ub, sid = q, ub >> lo, ('x', x.id, lo)
            else:
                sid = x.id
            nw = hi - lo + 1
            if ub < (1 << nw):
                return e
            _, r = self.split(sid, e, ub, nw)
            return r
        if op == 'concat':
            return c[A[0].id] * (1 << A[1].w) + c[A[1].id]
        if op == 'ite':
            return z3.If(c[A[0].id], c[A[1].id], c[A[2].id])
        if op == 'and':
            x, y = A
            for k, v in ((x, y), (y, x)):
                if k.op == 'const':
                    m = k.val
                    if m & (m + 1) == 0:  # low mask
                        _, r = self.split(v.id, c[v.id], v.ub, m.bit_length())
                        return r
                    # contiguous run of ones starting at bit lo
                    lo = (m & -m).bit_length() - 1
                    run = m >> lo
                    if run & (run + 1) == 0:
                        q, _ = self.split(v.id, c[v.id], v.ub, lo)
                        _, r = self.split(('x', v.id, lo), q, v.ub >> lo, run.bit_length())
                        return r * (1 << lo)
            raise IntBlastUnsupported("and of non-mask operands: %r" % (t,))
        if op == 'or' or op == 'xor':
            x, y = A
            if x.ones & y.ones == 0:
                return c[x.id] + c[y.id]
            raise IntBlastUnsupported("%s of overlapping operands: %r" % (op, t))
        if op == 'not':
            return mask(w) - c[A[0].id]
        if op == 'shl':
            k = _conc(A[1])
            if k is None:
                raise IntBlastUnsupported("shl by symbolic amount")
            e = c[A[0].id] * (1 << k)
            return self._wrap(t, e, 0, A[0].ub << k)
        if op == 'lshr':
            k = _conc(A[1])
            if k is None:
                raise IntBlastUnsupported("lshr by symbolic amount")
            q, _ = self.split(A[0].id, c[A[0].id], A[0].ub, k)
            return q
        if op == 'eq':
            return c[A[0].id] == c[A[1].id]
        if op == 'beq':
            return c[A[0].id] == c[A[1].id]
        if op == 'ult':
            return c[A[0].id] < c[A[1].id]
        if op == 'ule':
            return c[A[0].id] <= c[A[1].id]
        if op == 'bnot':
            return z3.Not(c[A[0].id])
        if op == 'band':
            return z3.And(c[A[0].id], c[A[1].id])
        if op == 'bor':
            return z3.Or(c[A[0].id], c[A[1].id])
        if op == 'urem':
            k = _conc(A[1])
            if k:
                q, r = self.fresh('dq'), self.fresh('dr')
                self.side += [c[A[0].id] == q * k + r, r >= 0, r < k, q >= 0, q <= A[0].ub // k]
                return r
        if op == 'udiv':
            k = _conc(A[1])
            if k:
                q, r = self.fresh('dq'), self.fresh('dr')
                self.side += [c[A[0].id] == q * k + r, r >= 0, r < k, q >= 0, q <= A[0].ub // k]
                return q
        raise IntBlastUnsupported("op %s" % op)

    def product_const(self, x, cval):
        while x.op == 'zext':
            x = x.args[0]
        p = self.prods.get((x.id, ('c', cval)))
        return p[0] if p else None

    def product(self, x, y):
        """the opaque product variable for terms x,y (after zext stripping); None if never multiplied"""
        while x.op == 'zext':
            x = x.args[0]
        while y.op == 'zext':
            y = y.args[0]
        if self.ordered_products:
            p = self.prods.get((x.id, y.id)) or self.prods.get((y.id, x.id))
        else:
            p = self.prods.get((min(x.id, y.id), max(x.id, y.id)))
        return p[0] if p else None


class IntBlastUnsupported(Exception):
    pass


# ---------------------------------------------------------------- evaluation under a concrete assignment
def evaluate(t, env):
    """evaluate term under env: var name -> int/bool. UFs unsupported."""
    if not isinstance(t, T):
        return t
    cache = {}
    stack = [t]
    while stack:
        n = stack[-1]
        if n.id in cache:
            stack.pop()
            continue
        pend = [a for a in n.args if a.id not in cache]
        if pend:
            stack.extend(pend)
            continue
        stack.pop()
        a = [cache[x.id] for x in n.args]
        op, w = n.op, n.w
        if op == 'const':
            v = n.val
        elif op == 'var':
            v = env[n.val]
        elif op in ('add', 'sub', 'mul', 'and', 'or', 'xor', 'shl', 'lshr', 'ashr', 'udiv', 'urem', 'sdiv', 'srem'):
            v = _binop_py(op, a[0], a[1], w)
        elif op == 'not':
            v = (~a[0]) & mask(w)
        elif op == 'extract':
            v = (a[0] >> n.val[1]) & mask(w)
        elif op == 'zext':
            v = a[0]
        elif op == 'sext':
            fw = n.args[0].w
            v = a[0] | (mask(w) ^ mask(fw)) if a[0] >> (fw - 1) else a[0]
        elif op == 'concat':
            v = (a[0] << n.args[1].w) | a[1]
        elif op == 'ite':
            v = a[1] if a[0] else a[2]
        elif op in ('eq', 'beq'):
            v = a[0] == a[1]
        elif op == 'ult':
            v = a[0] < a[1]
        elif op == 'ule':
            v = a[0] <= a[1]
        elif op in ('slt', 'sle'):
            fw = n.args[0].w
            sx = a[0] - (1 << fw) if a[0] >> (fw - 1) else a[0]
            sy = a[1] - (1 << fw) if a[1] >> (fw - 1) else a[1]
            v = sx < sy if op == 'slt' else sx <= sy
        elif op == 'bnot':
            v = not a[0]
        elif op == 'band':
            v = a[0] and a[1]
        elif op == 'bor':
            v = a[0] or a[1]
        else:
            raise ValueError("evaluate: op %s" % op)
        cache[n.id] = v
    return cache[t.id]


def free_vars(ts):
    seen = set()
    out = {}
    stack = [t for t in ts if isinstance(t, T)]
    while stack:
        n = stack.pop()
        if n.id in seen:
            continue
        seen.add(n.id)
        if n.op == 'var':
            out[n.val] = n.w
        stack.extend(n.args)
    return out


def dag_size(ts):
    seen = set()
    stack = [t for t in ts if isinstance(t, T)]
    while stack:
        n = stack.pop()
        if n.id in seen:
            continue
        seen.add(n.id)
        stack.extend(n.args)
    return len(seen)
