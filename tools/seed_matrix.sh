#!/bin/bash
# run every seeded change against the check of the property it breaks (and related ones); write /verif/seeded/<id>/detect.log
cd /verif
declare -A REL=( [C01-a]="C01" [C02-a]="C02 C18" [C03-a]="C03" [C04-a]="C04" [C05-a]="C05 C07" [C06-a]="C06 C10" [C07-a]="C07 C12" [C08-a]="C08" [C09-a]="C09" [C10-a]="C10 C06" [C11-a]="C11 C06" [C12-a]="C12 C07" [C13-a]="C13" [C14-a]="C14" [C15-a]="C15" [C16-a]="C16" [C17-a]="C17" [C18-a]="C18 C02" [C19-a]="C19" [C20-a]="C20 C15" )
for s in "${!REL[@]}"; do
  : > seeded/$s/detect.log
  for id in ${REL[$s]}; do
    LINES_MAX=3 tools/try_mutant.sh /verif/seeded/$s/patch.diff $id >> seeded/$s/detect.log 2>&1
  done
  echo "$s: $(grep -E 'exit=' seeded/$s/detect.log | tr '\n' ' ')"
done
