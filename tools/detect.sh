#!/bin/bash
# usage: detect.sh <seed-name> <check ids...>   -- apply seeded/<seed>/patch.diff to a private scratch worktree of /repo HEAD, run the checks against
# it (VERIF_REPO), append the result lines to seeded/<seed>/detect.log, remove the worktree.  Safe to run several at once.
name="$1"; shift
d=/verif/seeded/$name
patch=$d/patch.diff
if [ -f "$name" ]; then   # a patch file given directly (e.g. mutants/benign/*.patch): log under /tmp
  patch=$(readlink -f "$name"); name=$(basename "$name" .patch); d=/tmp/detectlogs/$name; mkdir -p $d
fi
W=$(mktemp -d /tmp/detwt_XXXXXX); rmdir $W
git -C /repo worktree add -q --detach $W HEAD || exit 2
trap 'git -C /repo worktree remove --force '$W' 2>/dev/null; rm -rf '$W EXIT
( cd $W && git apply $patch ) || { echo "$name: patch does not apply"; exit 2; }
[ -f $d/detect.log ] || echo "# tools/detect.sh $name <checks>  (scratch worktree of /repo HEAD with the patch applied; rc=1 = VIOLATION reported; Nv = VIOLATION lines)" > $d/detect.log
cd /verif
for id in "$@"; do
  out=$(VERIF_REPO=$W ./check $id 2>&1); rc=$?
  ln="$name $id rc=$rc $(echo "$out" | grep -E 'PASS|FAIL|ENGINE-ERROR:' | tail -1 | sed 's/.*\] //') $(echo "$out" | grep -c '^VIOLATION')v [verif $(git -C /verif rev-parse --short HEAD)$(git -C /verif diff --quiet || echo +)]"
  echo "$ln" | tee -a $d/detect.log
  if [ $rc = 3 ] || [ -n "$DETECT_KEEP" ]; then echo "$out" > /tmp/detect_${name}_$id.out; fi
done
