#!/bin/bash
# usage: intake_seed.sh <seed-name e.g. C10-c> <agent worktree> <check ids...>
# copies the agent's _deliver, confirms it in a fresh scratch worktree, removes the agent's worktree, then runs the listed checks
# against the patch on the scratch worktree /tmp/repo_dev3 (serialised by a lock)
name="$1"; wt="$2"; shift 2
d=/verif/seeded/$name
mkdir -p $d
cp $wt/_deliver/* $d/ 2>/dev/null
[ -f $d/patch.diff ] || { echo "$name: no patch delivered"; exit 2; }
/verif/tools/confirm_seed.sh $name $d | tail -1
git -C /repo worktree remove --force $wt 2>/dev/null; rm -rf $wt
(
 flock 9
 { echo "# tools/try_mutant_dev.sh seeded/$name/patch.diff $*  (scratch worktree of /repo HEAD; rc=1 = VIOLATION reported; Nv = VIOLATION lines)";
   VERIF_DEVWT=${DEVWT:-/tmp/repo_dev3} /verif/tools/try_mutant_dev.sh $d/patch.diff "$@" 2>&1 | grep -v WARNING; } > $d/detect.log
) 9>${DEVWT:-/tmp/repo_dev3}.lock
tail -n +2 $d/detect.log
