#!/bin/bash
# usage: detect_queue.sh <file with lines "seed check [check...]">  -- run detect.sh for each line, sequentially
while read -r seed checks; do
  [ -z "$seed" ] && continue
  /verif/tools/detect.sh $seed $checks 2>&1 | grep -E " C[0-9][0-9] rc="
done < "$1"
