#!/bin/bash
# usage: run_all.sh [tier]  -- run every check, print one line each
cd /verif
tier=${1:-quick}
for id in C01 C02 C03 C04 C05 C06 C07 C08 C09 C10 C11 C12 C13 C14 C15 C16 C17 C18 C19 C20; do
  s=$(date +%s)
  out=$(./check $id --tier $tier 2>&1)
  rc=$?
  e=$(date +%s)
  echo "$id rc=$rc $((e-s))s $(echo "$out" | grep -E 'PASS|FAIL' | tail -1 | sed 's/.*\] //') $(echo "$out" | grep -c '^VIOLATION') violations $(echo "$out" | grep -c 'KNOWN-FINDING') known"
done
