#!/bin/bash
# usage: try_mutant.sh <patch.diff> <ID> [<ID>...]   -- apply patch to /repo, run quick checks, always revert
patch="$1"; shift
cd /repo || exit 2
if ! git diff --quiet; then echo "/repo dirty"; exit 2; fi
git apply "$patch" || { echo "patch does not apply"; exit 2; }
trap 'git -C /repo checkout -- . ; git -C /repo clean -fdq' EXIT
cd /verif
for id in "$@"; do
  echo "=== $id on $(basename $(dirname $patch))"
  ./check $id ${TIER:+--tier $TIER} 2>&1 | grep -E "VIOLATION|KNOWN-FINDING|PASS|FAIL|ENGINE-ERROR|Traceback|Error" | sort | uniq -c | sort -rn | head -${LINES_MAX:-12}
  echo "exit=${PIPESTATUS[0]}"
done
