#!/bin/bash
# usage: try_benign.sh <patch> <ID>...  -- apply a semantics-preserving patch to a scratch worktree and run checks there (must stay silent)
patch="$1"; shift
W=${VERIF_DEVWT:-/tmp/repo_dev2}
cd $W && git checkout -q -- . && git clean -fdq && git apply "$patch" || { echo "patch does not apply"; exit 2; }
cd /verif
for id in "$@"; do
  out=$(VERIF_REPO=$W ./check $id 2>&1); rc=$?
  echo "$(basename $patch) $id rc=$rc $(echo "$out" | grep -E 'PASS|FAIL|ENGINE' | tail -1 | sed 's/.*\] //')"
done
cd $W && git checkout -q -- .
