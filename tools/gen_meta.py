#!/usr/bin/env python3
"""usage: gen_meta.py <seed-name> [--force]  -- (re)write seeded/<seed>/meta.json from notes.md, confirm.log and detect.log"""
import json, os, re, sys
name = sys.argv[1]
d = os.path.join(os.path.dirname(os.path.dirname(os.path.abspath(__file__))), 'seeded', name)
mp = os.path.join(d, 'meta.json')
old = json.load(open(mp)) if os.path.exists(mp) else {}
notes = open(os.path.join(d, 'notes.md')).read() if os.path.exists(os.path.join(d, 'notes.md')) else ''
title = ''
for ln in notes.splitlines():
    if ln.startswith('#'):
        title = re.sub(r'^#+\s*', '', ln).strip()
        break
# the "what is needed to manifest" section of the agent's notes, first paragraph
needs = ''
m = re.search(r'^##[^\n]*(needed|manifest|trigger)[^\n]*\n(.*?)(?=^## |\Z)', notes, re.S | re.M | re.I)
if m:
    needs = ' '.join(m.group(2).strip().split('\n\n')[0].split())[:600]
rnd = {'a': 1, 'b': 2, 'c': 3, 'd': 4, 'e': 5, 'f': 6, 'g': 7}.get(name.split('-')[-1], None)
demos = sorted(f for f in os.listdir(d) if f.endswith('_test.go') or f.endswith('.go.txt'))
conf = open(os.path.join(d, 'confirm.log')).read().strip().splitlines() if os.path.exists(os.path.join(d, 'confirm.log')) else []
det = [l for l in open(os.path.join(d, 'detect.log')).read().splitlines() if l and not l.startswith('#') and re.match(r'^\S+ C\d\d rc=', l)] if os.path.exists(os.path.join(d, 'detect.log')) else []
prop = name.split('-')[0] if name.startswith('C') else name.split('-')[1]
meta = {
    'seed': name,
    'breaks_property': old.get('breaks_property', prop),
    'change': old.get('change', title),
    'needs_to_manifest': old.get('needs_to_manifest') or needs or title,
    'round': old.get('round', rnd),
    'origin': old.get('origin', 'written by an independent sub-agent that saw only the property text and a scratch worktree of /repo (nothing from /verif)'),
    'files': {'patch': 'patch.diff', 'demonstration': demos,
              'demo_path': open(os.path.join(d, 'demo_path.txt')).read().strip() if os.path.exists(os.path.join(d, 'demo_path.txt')) else None,
              'agent_notes': 'notes.md'},
    'confirmation': {
        'command': 'tools/confirm_seed.sh %s /verif/seeded/%s  (fresh scratch worktree of /repo HEAD, removed afterwards)' % (name, name),
        'result': conf[-1] if conf else 'not run',
        'detail': conf[-2] if len(conf) > 1 else '',
        'what': 'patch applies; module builds; existing suite passes with the patch; demonstration passes without the patch and fails with it'},
    'detection': {
        'command': 'tools/detect.sh %s <check ids>  (private scratch worktree of /repo HEAD with the patch applied, removed afterwards)' % name,
        'log': 'detect.log',
        'summary': det[-4:]},
}
json.dump(meta, open(mp, 'w'), indent=1)
print(name, meta['confirmation']['result'], '|', meta['needs_to_manifest'][:100])
