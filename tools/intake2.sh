#!/bin/bash
# usage: intake2.sh <seed-name e.g. C10-f> [agent worktree]  -- copy the agent's _deliver, confirm in a fresh scratch worktree, remove the agent's worktree, write meta.json
name="$1"; wt="${2:-/tmp/seedwt_$name}"
d=/verif/seeded/$name
mkdir -p $d
cp $wt/_deliver/* $d/ 2>/dev/null
[ -f $d/patch.diff ] || { echo "$name: no patch delivered"; exit 2; }
/verif/tools/confirm_seed.sh $name $d | tail -1
git -C /repo worktree remove --force $wt 2>/dev/null; rm -rf $wt
python3 /verif/tools/gen_meta.py $name
