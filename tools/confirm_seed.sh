#!/bin/bash
# usage: confirm_seed.sh <name> <deliver_dir>   -- independent confirmation of a seeded change in a fresh scratch worktree
# checks: patch applies; module builds; existing suite passes with the patch; demo fails with it and passes without it.
name="$1"; dd="$2"
export GOFLAGS=-mod=mod GOPROXY=off GOSUMDB=off GOTOOLCHAIN=local
wt=/tmp/seedchk_$name
git -C /repo worktree remove --force $wt 2>/dev/null
git -C /repo worktree add -q --detach $wt HEAD || exit 2
trap 'git -C /repo worktree remove --force '$wt' 2>/dev/null; rm -rf '$wt EXIT
cd $wt
demo_rel=$(cat $dd/demo_path.txt | tr -d '[:space:]')
demo_src=$(ls $dd/*_test.go | head -1)
res=/verif/seeded/$name/confirm.log
mkdir -p /verif/seeded/$name
{
echo "## confirm $name on /repo HEAD $(git -C /repo rev-parse --short HEAD)"
cp $demo_src $wt/$demo_rel
pkg=./$(dirname $demo_rel)
echo "# demo on unpatched tree (must pass):"
go test -vet=off -count=1 -run 'Demo|ZZ' $pkg 2>&1 | tail -3; r0=${PIPESTATUS[0]}
rm $wt/$demo_rel
echo "# apply patch:"; git apply $dd/patch.diff && echo applied || { echo "PATCH-FAILS"; exit 1; }
echo "# build:"; go build ./... && echo build-ok
echo "# existing suite with patch (must pass):"
go test -vet=off -count=1 -timeout 25m ./... 2>&1 | grep -v "no test files" | tail -8; r1=${PIPESTATUS[0]}
cp $demo_src $wt/$demo_rel
echo "# demo on patched tree (must fail):"
go test -vet=off -count=1 -run 'Demo|ZZ' $pkg 2>&1 | tail -6; r2=${PIPESTATUS[0]}
echo "RESULT demo_unpatched_exit=$r0 suite_patched_exit=$r1 demo_patched_exit=$r2"
if [ $r0 = 0 ] && [ $r1 = 0 ] && [ $r2 != 0 ]; then echo CONFIRMED; else echo NOT-CONFIRMED; fi
} > $res 2>&1
tail -2 $res
