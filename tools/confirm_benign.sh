#!/bin/bash
# usage: confirm_benign.sh <name> : apply seeded/<name>/patch.diff to a fresh scratch worktree, build, run the whole existing suite
name="$1"; d=/verif/seeded/$name
export GOFLAGS=-mod=mod GOPROXY=off GOSUMDB=off GOTOOLCHAIN=local
wt=/tmp/benchk_$name
git -C /repo worktree remove --force $wt 2>/dev/null
git -C /repo worktree add -q --detach $wt HEAD || exit 2
trap 'git -C /repo worktree remove --force '$wt' 2>/dev/null; rm -rf '$wt EXIT
cd $wt
{
echo "## confirm $name on /repo HEAD $(git -C /repo rev-parse --short HEAD)"
git apply $d/patch.diff && echo applied || { echo PATCH-FAILS; exit 1; }
go build ./... && echo build-ok
go test -vet=off -count=1 -timeout 25m ./... 2>&1 | grep -v "no test files" | tail -8; r1=${PIPESTATUS[0]}
go test -vet=off -count=1 -tags purego -timeout 25m . ./internal/... 2>&1 | grep -v "no test files" | tail -4; r2=${PIPESTATUS[0]}
echo "RESULT suite_exit=$r1 purego_exit=$r2"
[ $r1 = 0 ] && [ $r2 = 0 ] && echo SUITE-GREEN || echo SUITE-RED
} > $d/confirm.log 2>&1
tail -1 $d/confirm.log
