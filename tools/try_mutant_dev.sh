#!/bin/bash
# like try_mutant.sh but on the scratch worktree /tmp/repo_dev2 (so /repo stays untouched)
patch="$1"; shift
W=${VERIF_DEVWT:-/tmp/repo_dev2}
cd $W && git checkout -q -- . && git clean -fdq && git apply "$patch" || { echo "patch does not apply"; exit 2; }
cd /verif
for id in "$@"; do
  out=$(VERIF_REPO=$W ./check $id 2>&1); rc=$?
  echo "$(basename $(dirname $patch)) $id rc=$rc $(echo "$out" | grep -E 'PASS|FAIL|ENGINE-ERROR:' | tail -1 | sed 's/.*\] //') $(echo "$out" | grep -c '^VIOLATION')v"
done
cd $W && git checkout -q -- . && git clean -fdq
