"""C16 Multi-scalar and double-scalar multiplication return the exact combination."""
import os
import z3
from .common import Check, load_prog, load_globals, new_machine, tm, X, MOD, N_ORDER, sym_limbs, cat_limbs
from . import models, groupalg as GA
from .c04 import strip_zext_t

ROOT = MOD + '.'
PT = '(*' + MOD + '.Point).'
TBL = '(*' + MOD + '.projectivePointMultTable).'
N = N_ORDER


def main():
    chk = Check('C16')
    only = os.environ.get('VERIF_ONLY', '')
    tasks = build(chk, only)
    from .common import include_dependency
    if not only or 'dep' in only:
        include_dependency(chk, tasks, 'C04', 'consts mulg split bound table lookup ladder', 'a one-element batch is delegated to ScalarMult / scalarMultVartimeGLV, and DoubleScalarMultBasepointVartime uses the latter (abstract-group layer: contract s*P)')
        include_dependency(chk, tasks, 'C05', 'table lookup basemult', 'DoubleScalarMultBasepointVartime computes u1*G with scalarBaseMultVartime (contract)')
    chk.run_tasks(tasks)
    chk.discharge()
    chk.finish()


def build(chk, only=''):
    """append this check's tasks (restricted to the groups named in `only`) to a task list; also used by the checks that
    depend on this one's contracts (common.include_dependency)"""
    prog = load_prog()
    gl = load_globals(prog)
    chk.summaries.update(GA.SUMMARY)
    chk.summaries['projectivePointMultTable.SelectAndAdd/SelectAndAddVartime'] = "sum' = sum + idx*tbl[0] for a table with tbl[i] = (i+1)*tbl[0]: discharged by C04 lookup/*, table/*"
    chk.summaries['ScalarMult / scalarMultVartimeGLV / scalarBaseMultVartime'] = 's*P resp. s*G: discharged by C04 and C05'
    tasks = []

    def gm(ctx, log):
        m = new_machine(prog, ctx, gl, value_model=True)
        models.install_value_model(m, mul='uf', which=('scalar',))
        GA.install(m)

        def closed(name):
            def c(m, a):
                tbl = m.load(a[0])
                b0 = tbl[0].v
                for i in range(15):
                    e = tbl[i].v
                    if e is GA.INVALID or b0 is GA.INVALID or not z3.is_true(z3.simplify(z3.And([e.coeff(k) == b0.coeff(k) * (i + 1) for k in set(e.c) | set(b0.c)]))):
                        ctx.check(False, 'lookup-table-holds-(i+1)*P (table entry %d is %s)' % (i, 'uninitialised' if e is GA.INVALID else 'wrong'))
                        if b0 is GA.INVALID:
                            b0 = GA.ZERO
                        break
                idx = a[2]
                if isinstance(idx, tm.T) and idx.ub > 15:
                    ctx.check(tm.ule(idx, 15, 64), 'bv:lookup-index-in-[0,15]')
                core = strip_zext_t(idx)
                I = z3.BV2Int(m.bvlow.lo(core)) if isinstance(core, tm.T) else z3.IntVal(core)
                log[name] = log.get(name, 0) + 1
                return m.grp_put(a[1], m.grp_raw(a[1]) + b0.scale(I))
            return c
        m.contracts[TBL + 'SelectAndAdd'] = closed('ct')
        m.contracts[TBL + 'SelectAndAddVartime'] = closed('vt')

        def sval(ptr):
            return tm.lift(cat_limbs(list(m.load(ptr)[1])), 256)

        def smul(name):
            def c(m, a):
                s = sval(a[1])
                p = m.grp_get(a[2])
                log.setdefault('single', []).append(name)
                S = z3.BV2Int(m.bvlow.lo(s)) if isinstance(s, tm.T) else z3.IntVal(s)
                return m.grp_put(a[0], p.scale(S))
            return c
        m.contracts[PT + 'ScalarMult'] = smul('ScalarMult')
        m.contracts[PT + 'scalarMultVartimeGLV'] = smul('scalarMultVartimeGLV')

        def c_sbm(m, a):
            s = sval(a[1])
            S = z3.BV2Int(m.bvlow.lo(s)) if isinstance(s, tm.T) else z3.IntVal(s)
            return m.grp_put(a[0], GA.base('G').scale(S))
        m.contracts[PT + 'scalarBaseMultVartime'] = c_sbm
        m.contracts[PT + 'ScalarBaseMult'] = c_sbm
        return m

    def bv2int_bytes(m, S):
        e = 0
        for j in range(64):
            nib = tm.extract(S, 4 * j + 3, 4 * j)
            e = e + (z3.BV2Int(m.bvlow.lo(nib)) if isinstance(nib, tm.T) else nib) * (16 ** j)
        return e

    # ------------------------------------------------------------------ MultiScalarMult / Vartime
    def t_msm(fn, l, pattern, recv):
        """pattern: tuple giving the point object class of each entry (equal numbers = the same *Point object);
        recv: None (fresh receiver) or index of the entry whose point object is also the receiver"""
        def task(sub):
            def h(ctx):
                log = {}
                m = gm(ctx, log)
                m.unwind = max(80, 2 * l + 16)
                objs = {}
                pts = []
                for c in pattern:
                    if c not in objs:
                        objs[c] = m.grp_new(GA.base('P%d' % c))
                    pts.append(objs[c])
                scal, S = [], []
                for i in range(l):
                    sl = sym_limbs('s%d' % i)
                    v = tm.lift(cat_limbs(sl), 256)
                    ctx.assume(tm.ult(v, N, 256))
                    S.append(v)
                    scal.append(X.Ptr(m.new_obj(None, tree=[[], list(sl)], label='s%d' % i), ()))
                v = pts[recv] if recv is not None else m.grp_new(GA.Lin({'OLD': z3.IntVal(1)}))
                so = m.new_obj(None, tree=list(scal), label='scalars')
                po = m.new_obj(None, tree=list(pts), label='points')
                r = m.call(PT + fn, [v, X.Slice(so, (), 0, l, l) if l else X.NILSLICE, X.Slice(po, (), 0, l, l) if l else X.NILSLICE])
                sub.note_machine(m)
                got = m.grp_get(v)
                want = {}
                for i in range(l):
                    b = 'P%d' % pattern[i]
                    if l == 1:
                        e = z3.BV2Int(m.bvlow.lo(S[i]))
                    else:
                        e = bv2int_bytes(m, S[i])
                    want[b] = want.get(b, 0) + e
                pc = [m.bvlow.lo(c) for c in ctx.pc if isinstance(c, tm.T)]
                ctx.check(r.same(v), 'returns-receiver')
                if l == 1:
                    ctx.check(log.get('single') == [{'MultiScalarMult': 'ScalarMult', 'MultiScalarMultVartime': 'scalarMultVartimeGLV'}[fn]], 'length-1-delegates-to-the-GLV-multiply')
                for i in range(l):
                    ctx.check(tm.eq(tm.lift(cat_limbs(list(m.load(scal[i])[1])), 256), S[i], 256), 'bv:scalar-unchanged')
                    if recv is None or pattern[i] != pattern[recv]:
                        pl = m.grp_get(pts[i])
                        ctx.check(set(pl.c) == {'P%d' % pattern[i]} and z3.is_true(z3.simplify(pl.coeff('P%d' % pattern[i]) == 1)), 'point-unchanged')
                goal = z3.And([GA.eq_coeff(m, got, b, e) for b, e in want.items()] + [GA.eq_coeff(m, got, k, 0) for k in got.c if k not in want])
                return (pc, goal)
            lbl = 'msm/%s@len%d[points=%s,receiver=%s]' % (fn, l, ','.join(map(str, pattern)) if l <= 8 else 'distinct', 'fresh' if recv is None else 'entry%d' % recv)
            paths = sub.explore(lbl, h, mode='bv')
            for i, p in enumerate(paths):
                if p.outcome == 'ok' and p.value:
                    sub.add('%s/v=sum(s_i*P_i)#p%d' % (lbl, i), p.value[0], p.value[1], mode='z3', timeout=300)
            sub.add(lbl + '/witness', [], any(p.outcome == 'ok' for p in paths))
        return task

    def patterns(l):
        out = []

        def rec(i, assign, k):
            if i == l:
                out.append(tuple(assign))
                return
            for c in range(k + 1):
                rec(i + 1, assign + [c], max(k, c + 1))
        rec(0, [], 0)
        return out
    if not only or 'msm' in only:
        maxl = 5 if chk.thorough else 3
        for fn in ('MultiScalarMult', 'MultiScalarMultVartime'):
            for l in range(0, maxl + 1):
                pats = patterns(l) if l <= 3 else [tuple(range(l)), tuple([0] * l), tuple([0, 1] * 3)[:l]]
                for pat in pats:
                    for recv in [None] + list(range(l)):
                        tasks.append(('msm', t_msm(fn, l, pat, recv)))
        # long lists (chunked or batched processing would only show there): distinct point objects, fresh receiver and the receiver as the last entry
        longs = (17, 33, 65, 129) if chk.thorough else (33, 65)
        for fn in ('MultiScalarMult', 'MultiScalarMultVartime'):
            for l in longs:
                tasks.append(('msm', t_msm(fn, l, tuple(range(l)), None)))
            tasks.append(('msm', t_msm(fn, longs[0], tuple(range(longs[0])), longs[0] - 1)))
        chk.bounds.append('MultiScalarMult / MultiScalarMultVartime, long lists: lengths %s with pairwise distinct point objects, all scalars in [0,n)' % (longs,))
        chk.bounds.append('MultiScalarMult / MultiScalarMultVartime: list lengths 0..%d, all scalars in [0,n), every equality pattern among the point objects (lengths <= 3), '
                          'receiver fresh or any list entry; points arbitrary group elements (identity, P_i = -P_j are values of the symbolic bases)' % maxl)
        chk.outside.append('list lengths other than 0..%d and %s' % (maxl, longs))

    def t_mismatch(sub):
        for fn in ('MultiScalarMult', 'MultiScalarMultVartime'):
            for (ls, lp) in ((0, 1), (1, 0), (2, 1), (1, 2), (3, 2)):
                def h(ctx, fn=fn, ls=ls, lp=lp):
                    m = gm(ctx, {})
                    pts = [m.grp_new(GA.base('P%d' % i)) for i in range(lp)]
                    scal = [X.Ptr(m.new_obj(None, tree=[[], sym_limbs('s%d' % i)], label='s'), ()) for i in range(ls)]
                    so = m.new_obj(None, tree=list(scal), label='scalars')
                    po = m.new_obj(None, tree=list(pts), label='points')
                    v = m.grp_new(GA.Lin({'OLD': z3.IntVal(1)}))
                    try:
                        m.call(PT + fn, [v, X.Slice(so, (), 0, ls, ls) if ls else X.NILSLICE, X.Slice(po, (), 0, lp, lp) if lp else X.NILSLICE])
                    except X.GoPanic:
                        got = m.grp_get(v)
                        ctx.check(set(got.c) == {'OLD'}, 'receiver-untouched-when-refusing')
                        return 'panic'
                    ctx.check(False, 'mismatched-lengths-must-be-refused')
                sub.explore('msm/%s/length-mismatch[%d,%d]' % (fn, ls, lp), h, allow_panic=lambda p: True)
    if not only or 'msm' in only:
        tasks.append(('mismatch', t_mismatch))

    # ------------------------------------------------------------------ DoubleScalarMultBasepointVartime
    def t_dsm(alias):
        def task(sub):
            def h(ctx):
                m = gm(ctx, {})
                u1l, u2l = sym_limbs('u1'), sym_limbs('u2')
                U1, U2 = tm.lift(cat_limbs(u1l), 256), tm.lift(cat_limbs(u2l), 256)
                ctx.assume(tm.ult(U1, N, 256))
                ctx.assume(tm.ult(U2, N, 256))
                u1 = X.Ptr(m.new_obj(None, tree=[[], list(u1l)], label='u1'), ())
                u2 = X.Ptr(m.new_obj(None, tree=[[], list(u2l)], label='u2'), ())
                p = m.grp_new(GA.base('P'))
                v = p if alias else m.grp_new(GA.Lin({'OLD': z3.IntVal(1)}))
                r = m.call(PT + 'DoubleScalarMultBasepointVartime', [v, u1, u2, p])
                sub.note_machine(m)
                got = m.grp_get(v)
                pc = [m.bvlow.lo(c) for c in ctx.pc if isinstance(c, tm.T)]
                ctx.check(r.same(v), 'returns-receiver')
                goal = z3.And([got.coeff('G') == z3.BV2Int(m.bvlow.lo(U1)), GA.eq_coeff(m, got, 'P', z3.BV2Int(m.bvlow.lo(U2)))] +
                              [GA.eq_coeff(m, got, k, 0) for k in got.c if k not in ('G', 'P')])
                return (pc, goal)
            lbl = 'dsm/DoubleScalarMultBasepointVartime[%s]' % ('v=p' if alias else 'v|p')
            paths = sub.explore(lbl, h, mode='bv')
            for i, p in enumerate(paths):
                if p.outcome == 'ok' and p.value:
                    sub.add(lbl + '/v=u1*G+u2*P#p%d' % i, p.value[0], p.value[1], mode='z3', timeout=120)
            sub.add(lbl + '/witness', [], any(p.outcome == 'ok' for p in paths))
        return task
    if not only or 'dsm' in only:
        tasks.append(('dsm', t_dsm(False)))
        tasks.append(('dsm', t_dsm(True)))
        chk.bounds.append('DoubleScalarMultBasepointVartime: all u1, u2 in [0,n), P arbitrary, receiver fresh or aliasing P')

    return tasks


if __name__ == '__main__':
    from .common import run_main
    run_main(main)
