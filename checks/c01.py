"""C01 Field-element operations are exact arithmetic modulo p."""
from .common import Check, load_prog, load_globals
from . import ring as R


def main():
    chk = Check('C01')
    prog = load_prog()
    gl = load_globals(prog)
    ring = R.Ring('field')
    only = None
    import os
    only = os.environ.get('VERIF_ONLY')
    if not only or 'lin' in only:
        R.linear_kernels(chk, prog, ring, gl)
    if not only or 'mul' in only:
        R.mult_kernels(chk, prog, ring, gl)
    chk.discharge()
    chk.finish()


if __name__ == '__main__':
    main()
