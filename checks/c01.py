"""C01 Field-element operations are exact arithmetic modulo p."""
from .common import Check, load_prog, load_globals
from . import ring as R


def main():
    chk = Check('C01')
    prog = load_prog()
    gl = load_globals(prog)
    ring = R.Ring('field')
    only = None
    import os
    only = os.environ.get('VERIF_ONLY')
    if not only or 'lin' in only:
        R.linear_kernels(chk, prog, ring, gl)
    if not only or 'mul' in only:
        R.mult_kernels(chk, prog, ring, gl)
    if not only or 'meth' in only:
        R.methods(chk, prog, ring, gl)
    if not only or 'chain' in only:
        R.chains(chk, prog, ring, gl)
    if not only or 'extra' in only:
        R.field_extras(chk, prog, ring, gl)
    if chk.thorough and not only:
        from . import selftest
        failures, counts, instrs = selftest.run(chk.seed or 1)
        chk.add('translator-validation/executor-agrees-with-references-on-concrete-inputs', [], not failures,
                meta={'comparisons': counts, 'ssa_instructions': instrs, 'mismatches': failures[:5]})
        chk.extra['translator_validation_comparisons'] = sum(counts.values()) if isinstance(counts, dict) else int(counts)
        chk.notes.append('translator validation: %s comparisons, %d SSA instructions executed concretely' % (counts, instrs))
    chk.discharge()
    chk.finish()


if __name__ == '__main__':
    from .common import run_main
    run_main(main)
