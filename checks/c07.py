"""C07 ECDSA verification accepts exactly the signatures SEC 1 section 4.1.4 accepts."""
import os
from .common import Check, load_prog, load_globals, new_machine, tm, X, MOD, N_ORDER, sym_bytes, cat_bytes, cat_limbs, sym_limbs
from .schnorr_common import snapshot, unchanged
from . import models, stubs, toy as T

SECEC = MOD + '/secec.'
PK = '(*' + MOD + '/secec.PublicKey).'
W = T.W
TOYS_QUICK = [(43, 31), (163, 139)]
TOYS_THOROUGH = [(43, 31), (163, 139), (211, 199)]


def spec_verify(toy, e16, r, s, q):
    """SEC 1 4.1.4 over the toy curve: e16 = leftmost 256 bits of the digest as an integer (here < 2^16)"""
    e = tm.bv('urem', e16, toy.n, W)
    w = toy.invn(s)
    u1 = toy.muln(e, w)
    u2 = toy.muln(r, w)
    R = toy.addn(u1, toy.muln(u2, q))
    ok = tm.band_all([tm.bnot(tm.eq(r, 0, W)), tm.bnot(tm.eq(s, 0, W)), tm.ult(r, toy.n, W), tm.ult(s, toy.n, W),
                      tm.bnot(tm.eq(R, 0, W)), tm.eq(tm.bv('urem', toy.X(R), toy.n, W), r, W)])
    return ok


def spec_recover(toy, e16, r, s, v):
    """SEC 1 4.1.6 with explicit recovery id v (8-bit term): returns (ok, Q index)"""
    n = toy.n
    e = tm.bv('urem', e16, n, W)
    hi = tm.eq(tm.bv('and', v, 2, 8), 2, 8)
    x = tm.bv('add', r, tm.ite(hi, n, 0, W), W)
    found, kR = toy.lift(x, tm.eq(tm.bv('and', v, 1, 8), 1, 8))
    rinv = toy.invn(r)
    Q = toy.muln(rinv, toy.addn(toy.muln(s, kR), toy.negn(e)))
    ok = tm.band_all([tm.ult(v, 4, 8), tm.bnot(tm.eq(r, 0, W)), tm.bnot(tm.eq(s, 0, W)), tm.ult(x, toy.p, W), found,
                      tm.bnot(tm.eq(Q, 0, W))])
    return ok, Q


def digest_bytes(L, name='h'):
    """digest of length L whose leading 32 bytes encode a 16-bit integer (upper 30 bytes zero); the rest arbitrary"""
    e16 = tm.var(name + '_e16', W)
    lead = T.be32(e16)
    bs = (lead + sym_bytes(name + '_tail', max(0, L - 32)))[:L] if L >= 32 else lead[32 - L:] if L > 0 else []
    return e16, bs


def main():
    chk = Check('C07')
    prog = load_prog()
    gl = load_globals(prog)
    only = os.environ.get('VERIF_ONLY', '')
    chk.summaries.update(T.CONTRACT_SUMMARY)
    chk.stubs += stubs.STUB_NOTES
    toys = TOYS_THOROUGH if chk.thorough else TOYS_QUICK
    tasks = []

    def mk(ctx, toy):
        m = new_machine(prog, ctx, gl, value_model=True)
        stubs.install_crypto_hash(m)
        T.install(m, toy)
        return m

    # ---------------------------------------------------------------- exact, full width: hashToScalar
    def t_h2s(L):
        def task(sub):
            def h(ctx):
                m = new_machine(prog, ctx, gl, value_model=True)
                models.install_value_model(m, mul='uf')
                hb = sym_bytes('h', L)
                s, err = m.call(SECEC + 'hashToScalar', [m.new_byte_slice(hb, 'hash')])
                sub.note_machine(m)
                if err is not None:
                    ctx.check(L < 32, 'error-only-for-short-digest')
                    ctx.check(s.is_nil(), 'no-scalar-on-error')
                    return
                ctx.check(L >= 32, 'short-digest-must-be-rejected')
                E = tm.lift(cat_bytes(hb[:32]), 256)
                red = tm.ite(tm.ule(N_ORDER, E, 256), tm.bv('sub', E, N_ORDER, 256), E, 256)   # E < 2^256 < 2n
                ctx.check(tm.eq(tm.lift(cat_limbs(list(m.load(s)[1])), 256), red, 256), 'bv:e=leftmost-256-bits-mod-n')
            sub.explore('exact/hashToScalar@len%d' % L, h, mode='bv')
        return task
    if not only or 'h2s' in only:
        for L in range(0, 65):
            tasks.append(('h2s@%d' % L, t_h2s(L)))
        chk.bounds.append('hashToScalar: every digest length 0..64, all contents, full width (e = int(h[:32]) mod n, nothing beyond byte 31 matters)')

    # ---------------------------------------------------------------- toy semantics: VerifyRaw and the private-key arm
    def t_verifyraw(toy, L):
        def task(sub):
            def h(ctx):
                m = mk(ctx, toy)
                q, r, s = tm.var('q', W), tm.var('r', W), tm.var('s', W)
                for v in (q, r, s):
                    ctx.assume(tm.ult(v, toy.n, W))
                ctx.assume(tm.bnot(tm.eq(q, 0, W)))
                e16, hb = digest_bytes(L)
                pub = T.new_public_key(m, q)
                hsl, rp, sp = m.new_byte_slice(hb, 'digest'), T.new_scalar(m, r), T.new_scalar(m, s)
                snap = snapshot(m, [pub, hsl, rp, sp])
                res = m.call(PK + 'VerifyRaw', [pub, hsl, rp, sp])
                sub.note_machine(m)
                ctx.check(unchanged(m, snap), 'bv:key-object-and-arguments-unchanged-by-verification')
                spec = spec_verify(toy, e16, r, s, q) if L >= 32 else False
                ctx.check(tm.eq(res, spec, 0), 'bv:VerifyRaw-accepts-iff-SEC1-4.1.4')
                # private-key arm of verify() agrees
                priv = T.new_private_key(m, q)
                err = m.call(SECEC + 'verify', [priv, X.NILPTR, m.new_byte_slice(hb, 'digest'), T.new_scalar(m, r), T.new_scalar(m, s)])
                ctx.check(tm.eq(err is None, spec, 0), 'bv:private-key-arm-accepts-iff-SEC1-4.1.4')
                # a result the code left symbolic (e.g. `return a == 0 && bytes.Equal(..)`) is split so that the witness below is semantic
                return ctx.branch(res) if isinstance(res, tm.T) else bool(res)
            paths = sub.explore('toy(%d,%d)/VerifyRaw@len%d' % (toy.p, toy.n, L), h, mode='bv')
            if L >= 32:
                sub.add('toy(%d,%d)/VerifyRaw@len%d/witness-accept-and-reject' % (toy.p, toy.n, L), [], {p.value for p in paths} >= {True, False})
        return task
    if not only or 'raw' in only:
        for (p, n) in toys:
            toy = T.get_toy(p, n)
            for L in (0, 31, 32, 33, 64):
                tasks.append(('raw(%d,%d)@%d' % (p, n, L), t_verifyraw(toy, L)))
        chk.bounds.append('VerifyRaw / verify (both arms): toy curves %s; all Q != O, all r,s in [0,n\'), all digests whose leading 32 bytes encode an integer < 2^16 '
                          '(covers e >= n\'), digest lengths {0,31,32,33,64}' % toys)

    # ---------------------------------------------------------------- toy semantics: Verify with options, compact encodings
    def t_verify_opts(toy, hashid, enc, malle, L):
        def task(sub):
            def h(ctx):
                m = mk(ctx, toy)
                q = tm.var('q', W)
                ctx.assume(tm.ult(q, toy.n, W))
                ctx.assume(tm.bnot(tm.eq(q, 0, W)))
                r16, s16 = tm.var('r16', W), tm.var('s16', W)   # arbitrary 16-bit: includes 0, n', n'+1, >= n'
                v = tm.var('v', 8)
                e16, hb = digest_bytes(L)
                sig = T.be32(r16) + T.be32(s16) + ([v] if enc == 2 else [])
                opts = X.Ptr(m.new_obj(None, tree=[hashid, enc & (2 ** 64 - 1), False, malle], label='ECDSAOptions'), ())
                pub = T.new_public_key(m, q)
                hsl, ssl = m.new_byte_slice(hb, 'digest'), m.new_byte_slice(sig, 'sig')
                snap = snapshot(m, [pub, hsl, ssl, opts])
                res = m.call(PK + 'Verify', [pub, hsl, ssl, opts])
                sub.note_machine(m)
                ctx.check(unchanged(m, snap), 'bv:key-object-and-arguments-unchanged-by-verification')
                size = stubs.HASH_SIZES[hashid or 5]
                half = (toy.n - 1) // 2
                if L != size or enc not in (1, 2):
                    spec = False
                else:
                    base = spec_verify(toy, e16, r16, s16, q) if L >= 32 else False
                    if malle:
                        base = tm.band(base, tm.ule(s16, half, W))
                    if enc == 2:
                        ok, Q = spec_recover(toy, e16, r16, s16, v)
                        canon = tm.band_all([tm.ult(r16, toy.n, W), tm.ult(s16, toy.n, W)])
                        base2 = tm.band_all([canon, ok, tm.eq(Q, q, W)])
                        if malle:
                            base2 = tm.band(base2, tm.ule(s16, half, W))
                        # a recoverable signature is accepted iff recovery succeeds and yields Q; by SEC 1 this implies 4.1.4
                        ctx.check(tm.implies(base2, base), 'bv:recovered-key-equals-Q-implies-4.1.4-accepts')
                        base = base2
                    spec = base
                ctx.check(tm.eq(res, spec, 0), 'bv:Verify-accepts-iff-spec')
                # a result the code left symbolic (e.g. `return a == 0 && bytes.Equal(..)`) is split so that the witness below is semantic
                return ctx.branch(res) if isinstance(res, tm.T) else bool(res)
            sub.explore('toy(%d,%d)/Verify[hash=%d,enc=%d,rejectMalleable=%s]@len%d' % (toy.p, toy.n, hashid, enc, malle, L), h, mode='bv')
        return task
    if not only or 'opts' in only:
        for (p, n) in toys[:1] if not chk.thorough else toys:
            toy = T.get_toy(p, n)
            for hashid in (0, 5, 7):
                for enc in (1, 2, 3, -1):
                    if enc == 2 and (p, n) != toys[0]:
                        # recoverable encoding with q, r, s, v, e all symbolic is undecided within the time limit on the larger
                        # toy curves (z3: unknown): claimed on the first toy curve only; recovery itself on the larger ones is C11's
                        continue
                    for malle in (False, True):
                        for L in (32, 64) if hashid != 7 else (32, 64):
                            tasks.append(('opts', t_verify_opts(toy, hashid, enc, malle, L)))
        chk.bounds.append('Verify(opts): hash ids {0,SHA-256,SHA-512}, encodings {compact, compact-recoverable, 3, -1}, both malleability settings, digest lengths {32,64}; '
                          'r,s arbitrary 16-bit values, recovery id arbitrary byte; toy curves %s (compact-recoverable on %s only)' % (toys if chk.thorough else toys[:1], toys[:1]))
        chk.outside.append('Verify with the compact-recoverable encoding on toy curves other than %s (solver returns unknown within the limit; the recovery algebra on them is decided by C11)' % (toys[:1],))

    # ---------------------------------------------------------------- toy semantics: ASN.1 encoding and the Bitcoin entry point
    # Verify(.., EncodingASN1) = strict-DER grammar (independent transcription, specs.der_sig_grammar at n') composed with 4.1.4; every byte
    # of the candidate signature is symbolic.  bitcoin.VerifyASN1 = BIP-66 grammar of sig  /\  len(digest) = 32 (SHA-256)  /\  strict DER of
    # sig[:-1]  /\  s <= (n'-1)/2  /\  4.1.4.
    from . import specs as S
    BTC = MOD + '/secec/bitcoin.'

    def asn1_spec(toy, B, e16, q, malle):
        acc, rv, sv = S.der_sig_grammar(B, upper=toy.n)
        if acc is False:
            return False
        r, s = tm.trunc(rv, W), tm.trunc(sv, W)
        base = tm.band(acc, spec_verify(toy, e16, r, s, q))
        if malle:
            base = tm.band(base, tm.ule(s, (toy.n - 1) // 2, W))
        return base

    def t_verify_asn1(toy, hashid, malle, L, LS):
        def task(sub):
            def h(ctx):
                m = mk(ctx, toy)
                q = tm.var('q', W)
                ctx.assume(tm.band(tm.ult(q, toy.n, W), tm.bnot(tm.eq(q, 0, W))))
                e16, hb = digest_bytes(L)
                B = sym_bytes('sig', LS)
                opts = X.Ptr(m.new_obj(None, tree=[hashid, 0, False, malle], label='ECDSAOptions'), ())
                pub = T.new_public_key(m, q)
                hsl, ssl = m.new_byte_slice(hb, 'digest'), m.new_byte_slice(B, 'sig')
                snap = snapshot(m, [pub, hsl, ssl, opts])
                res = m.call(PK + 'Verify', [pub, hsl, ssl, opts])
                sub.note_machine(m)
                ctx.check(unchanged(m, snap), 'bv:key-object-and-arguments-unchanged-by-verification')
                spec = asn1_spec(toy, B, e16, q, malle) if L == stubs.HASH_SIZES[hashid or 5] else False
                ctx.check(tm.eq(res, spec, 0), 'bv:Verify-accepts-iff-strict-DER-and-4.1.4')
                return ctx.branch(res) if isinstance(res, tm.T) else bool(res)
            lbl = 'toy(%d,%d)/Verify[hash=%d,enc=ASN1,rejectMalleable=%s]@len%d,siglen%d' % (toy.p, toy.n, hashid, malle, L, LS)
            paths = sub.explore(lbl, h, mode='bv')
            if L == stubs.HASH_SIZES[hashid or 5] and 8 <= LS <= (8 if toy.n <= 128 else 9 if malle else 10):
                sub.add(lbl + '/witness-accept-and-reject', [], {p.value for p in paths} >= {True, False})
        return task

    def t_bitcoin(toy, L, LS):
        def task(sub):
            def h(ctx):
                m = mk(ctx, toy)
                q = tm.var('q', W)
                ctx.assume(tm.band(tm.ult(q, toy.n, W), tm.bnot(tm.eq(q, 0, W))))
                e16, hb = digest_bytes(L)
                B = sym_bytes('sig', LS)
                pub = T.new_public_key(m, q)
                hsl, ssl = m.new_byte_slice(hb, 'digest'), m.new_byte_slice(B, 'sig')
                snap = snapshot(m, [pub, hsl, ssl])
                res = m.call(BTC + 'VerifyASN1', [pub, hsl, ssl])
                sub.note_machine(m)
                ctx.check(unchanged(m, snap), 'bv:key-object-and-arguments-unchanged-by-verification')
                if L != 32 or LS < 9:
                    spec = False
                else:
                    spec = tm.band(S.bip66_grammar(B), asn1_spec(toy, B[:-1], e16, q, True))
                ctx.check(tm.eq(res, spec, 0), 'bv:VerifyASN1-accepts-iff-BIP66-envelope-and-32-byte-digest-and-low-s-and-4.1.4')
                return ctx.branch(res) if isinstance(res, tm.T) else bool(res)
            lbl = 'toy(%d,%d)/bitcoin.VerifyASN1@len%d,siglen%d' % (toy.p, toy.n, L, LS)
            paths = sub.explore(lbl, h, mode='bv')
            if L == 32 and 9 <= LS <= (9 if toy.n <= 128 else 10):   # low-s: the s INTEGER has one byte
                sub.add(lbl + '/witness-accept-and-reject', [], {p.value for p in paths} >= {True, False})
        return task
    if not only or 'asn1' in only:
        toy = T.get_toy(*toys[0])
        siglens = (0, 7, 8, 9, 10, 11) if not chk.thorough else tuple(range(0, 14))
        for LS in siglens:
            for malle in (False, True):
                tasks.append(('asn1', t_verify_asn1(toy, 5, malle, 32, LS)))
            for L in (0, 31, 32, 33, 64):
                tasks.append(('asn1', t_bitcoin(toy, L, LS)))
        # n' = 139 > 128: INTEGER bodies with a leading zero byte (values 128..138) are reachable
        toy2 = T.get_toy(*toys[1])
        for LS in (8, 9, 10):
            tasks.append(('asn1', t_verify_asn1(toy2, 5, True, 32, LS)))
            tasks.append(('asn1', t_bitcoin(toy2, 32, LS + 1)))
        tasks.append(('asn1', t_verify_asn1(toy, 5, True, 64, 8)))
        tasks.append(('asn1', t_verify_asn1(toy, 7, True, 64, 8)))
        tasks.append(('asn1', t_verify_asn1(toy, 7, False, 32, 9)))
        chk.bounds.append('Verify(EncodingASN1) and bitcoin.VerifyASN1 on toy curves %s (every length) and %s (lengths 8..11, two-byte INTEGER bodies reachable): candidate signatures of %s bytes with every byte symbolic; '
                          'digest lengths {0,31,32,33,64} for the Bitcoin entry point; oracle = independent strict-DER / BIP-66 grammars composed with 4.1.4' % (toys[0], toys[1], list(siglens)))
        chk.outside.append('ASN.1 signatures whose INTEGER bodies are longer than the toy scalars need (the byte-level parser at full width, lengths 0..80, is C12)')

    # contracts this check's toy layer uses for routines named in the property's own file list: re-decided here (see common.include_dependency)
    from .common import include_dependency
    if not only or 'dep' in only:
        include_dependency(chk, tasks, 'C04', 'consts mulg split bound table lookup ladder', 'verification computes u2*Q with the variable-time GLV multiply (toy layer: contract)')
        include_dependency(chk, tasks, 'C05', 'table lookup basemult', 'verification computes u1*G with scalarBaseMultVartime (toy layer: contract)')
        include_dependency(chk, tasks, 'C16', 'dsm', 'verification calls DoubleScalarMultBasepointVartime(u1, u2, Q) (toy layer: contract u1*G + u2*Q)')
    chk.run_tasks(tasks)
    chk.discharge()
    chk.finish()


if __name__ == '__main__':
    from .common import run_main
    run_main(main)
