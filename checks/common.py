"""Shared driver for the per-property checks."""
import atexit
import hashlib
import json
import os
import shutil
import subprocess
import sys
import tempfile
import time

VERIF = os.path.dirname(os.path.dirname(os.path.abspath(__file__)))
sys.path.insert(0, VERIF)
from engine import ssaexec as X  # noqa: E402
from engine import term as tm  # noqa: E402
from engine import smt  # noqa: E402
from engine import globals as G  # noqa: E402
from engine.builtins_go import make_error  # noqa: E402

REPO = os.environ.get('VERIF_REPO', '/repo')
MOD = 'gitlab.com/yawning/secp256k1-voi'
P_FIELD = 2 ** 256 - 2 ** 32 - 977
N_ORDER = 0xFFFFFFFFFFFFFFFFFFFFFFFFFFFFFFFEBAAEDCE6AF48A03BBFD25E8CD0364141
R256 = 2 ** 256

# evidence (and replay files) are the record of runs against /repo itself; a run against a scratch tree (VERIF_REPO set, used by
# tools/detect.sh for seeded changes) writes them to a scratch directory instead
EVIDENCE_DIR = os.path.join(VERIF, 'evidence') if REPO == '/repo' else (os.environ.get('VERIF_EVIDENCE_DIR') or os.path.join(tempfile.gettempdir(), 'verif-evidence-scratch'))

GOENV = dict(os.environ, GOFLAGS='-mod=mod', GOPROXY='off', GOSUMDB='off', GOTOOLCHAIN='local')

_workdir = None


def workdir():
    global _workdir
    if _workdir is None:
        base = os.environ.get('VERIF_SCRATCH') or tempfile.gettempdir()
        _workdir = tempfile.mkdtemp(prefix='verif-', dir=base)
        atexit.register(lambda: shutil.rmtree(_workdir, ignore_errors=True))
    return _workdir


def ensure_tools():
    b = os.path.join(VERIF, 'bin', 'ssajson')
    src = os.path.join(VERIF, 'ssajson', 'main.go')
    if not os.path.exists(b) or os.path.getmtime(b) < os.path.getmtime(src):
        subprocess.run(['go', 'build', '-o', b, '.'], cwd=os.path.join(VERIF, 'ssajson'), env=GOENV, check=True)
    return b


_prog_cache = {}


def load_prog(tags='verif,purego', overlay=None):
    """regenerate the SSA dump from /repo's current working tree"""
    key = (tags, overlay)
    if key in _prog_cache:
        return _prog_cache[key]
    b = ensure_tools()
    out = os.path.join(workdir(), 'ssa_%s.json' % hashlib.md5(repr(key).encode()).hexdigest()[:8])
    cmd = [b, '-dir', REPO, '-tags', tags, '-out', out]
    if overlay:
        cmd += ['-overlay', overlay]
    cmd += ['.', './secec', './secec/bitcoin', './secec/h2c']
    t0 = time.time()
    p = subprocess.run(cmd, env=GOENV, stdout=subprocess.PIPE, stderr=subprocess.STDOUT, text=True)
    if p.returncode != 0:
        print(p.stdout)
        raise SystemExit("ENGINE-ERROR: ssajson failed (does /repo build?)")
    prog = X.Prog(out)
    prog.module = MOD
    prog.dump_time = time.time() - t0
    _prog_cache[key] = prog
    return prog


_globals_cache = {}


def load_globals(prog, tags=''):
    if tags not in _globals_cache:
        _globals_cache[tags] = G.GlobalLoader(G.dump_globals(prog, workdir(), REPO, tags=tags), prog)
    return _globals_cache[tags]


DEMONT = {'secp256k1montgomery.MontgomeryDomainFieldElement': P_FIELD,
          'secp256k1montgomeryscalar.MontgomeryDomainFieldElement': N_ORDER}


def new_machine(prog, ctx, gl=None, value_model=False):
    m = X.Machine(prog, ctx)
    if gl is not None:
        gl.install(m, demont=DEMONT if value_model else None)
    std = {}

    def mkerr(name):
        return lambda mm: make_error(mm, name)
    for n in ('io.EOF', 'io.ErrUnexpectedEOF', 'io.ErrShortBuffer', 'io.ErrNoProgress', 'io.ErrShortWrite'):
        m.global_init[n] = mkerr(n)
    m.global_init['encoding/binary.BigEndian'] = lambda mm: []
    m.global_init['encoding/binary.LittleEndian'] = lambda mm: []
    return m


# --------------------------------------------------------------------- helpers for limb values
def limbs_of(v, n=4):
    return [(v >> (64 * i)) & (2 ** 64 - 1) for i in range(n)]


def sym_limbs(name, n=4, taint=0):
    return [tm.var('%s_%d' % (name, i), 64, taint) for i in range(n)]


def cat_limbs(l):
    """little-endian limb list -> single BV term of 64*len bits (or int)"""
    r = 0
    rw = 0
    for x in reversed(l):
        r = tm.concat_w(r, rw, x, 64)
        rw += 64
    return r


def cat_bytes(bs):
    """big-endian byte list -> BV term (8*len bits) or int"""
    r = 0
    rw = 0
    for b in bs:
        r = tm.concat_w(r, rw, b, 8)
        rw += 8
    return r


def sym_bytes(name, n, taint=0):
    return [tm.var('%s_%d' % (name, i), 8, taint) for i in range(n)]


def int_of_limbs(l):
    return sum(int(x) << (64 * i) for i, x in enumerate(l))


# --------------------------------------------------------------------- known findings
def load_known():
    path = os.path.join(VERIF, 'known_findings.txt')
    known = []
    if os.path.exists(path):
        for ln in open(path):
            ln = ln.strip()
            if ln.startswith('finding:'):
                kv = dict(x.split('=', 1) for x in ln[len('finding:'):].split() if '=' in x)
                kv['_line'] = ln
                known.append(kv)
    return known


_TASKS = None
_PARENT = None


def _run_task(arg):
    i, quick_ms = arg
    name, fn = _TASKS[i]
    import traceback
    sub = Check(_PARENT.pid, _PARENT.level)
    sub.tier = _PARENT.tier
    sub.t0 = _PARENT.t0
    sub.quiet = True
    try:
        fn(sub)
        out = []
        for o in sub.obls:
            if o.smt is None:
                o.build()
            if o.result is None:
                smt.inprocess(o, quick_ms)
            d = {k: getattr(o, k) for k in ('name', 'mode', 'exact', 'timeout', 'expect', 'meta', 'smt', 'hash', 'result',
                                           'model', 'time', 'solver', 'trivial')}
            d['msg'] = getattr(o, 'msg', '')
            if o.result == o.expect and not (sub.tier == 'thorough' and (len(out) % 25 == 0)):
                d['smt'] = None  # decided: keep only the hash (a sample keeps its text for the cross-solver diff)
            out.append(d)
        return {'name': name, 'obls': out, 'paths': sub.paths, 'path_queries': sub.path_queries,
                'path_solver_time': sub.path_solver_time, 'funcs': sorted(sub.funcs), 'instrs': sub.instrs,
                'bounds': sub.bounds, 'outside': sub.outside, 'stubs': sub.stubs, 'assumptions': sub.assumptions,
                'notes': sub.notes, 'samples': sub.samples, 'log': getattr(sub, 'logbuf', [])}
    except X.AbstractionBreach as e:
        # the code reaches below the abstraction this task interprets it in (e.g. reads point coordinates inside a ladder that is
        # run in the abstract group): the task's layer has no image of this tree.  Not a verdict and not a failure of the
        # machinery by itself: Check.breach_fallback decides whether another layer of the same check covers the function.
        return {'name': name, 'error': traceback.format_exc(), 'breach': str(e)}
    except Exception as e:
        return {'name': name, 'error': traceback.format_exc(), 'exc': '%s: %s' % (type(e).__name__, str(e)[:200])}


class SkippedPaths(list):
    """result of explore() for a harness whose subject function does not exist in the current tree"""
    skipped = True


def run_main(main):
    """entry point wrapper: an uncaught exception of the machinery is an ENGINE-ERROR (exit 3, no verdict), never a violation"""
    import traceback
    try:
        main()
    except SystemExit:
        raise
    except BaseException:
        traceback.print_exc()
        print('ENGINE-ERROR: the check driver failed; no verdict')
        sys.exit(3)


# --------------------------------------------------------------------- dependencies between checks
class _DepView:
    """what a dependency's build() sees instead of the including check: text it records is forwarded with a prefix"""

    class _Fwd(list):
        def __init__(self, target, prefix):
            super().__init__()
            self.target, self.prefix = target, prefix

        def append(self, s):
            s = self.prefix + s
            if s not in self.target:
                self.target.append(s)

    def __init__(self, chk, dep):
        self._chk = chk
        pre = '[contract of %s, re-decided here] ' % dep
        self.bounds = self._Fwd(chk.bounds, pre)
        self.outside = self._Fwd(chk.outside, pre)
        self.notes = self._Fwd(chk.notes, pre)
        self.assumptions = self._Fwd(chk.assumptions, pre)
        self.stubs = chk.stubs
        self.summaries = chk.summaries
        self.extra = chk.extra
        self.breach_fallback = {}
        self._pref = 'dep-%s/' % dep
        self._filter = None     # regular expression: only harnesses / obligations whose name matches are built

    def __getattr__(self, k):
        return getattr(self._chk, k)

    # a dependency written in the direct style (ring.py: chk.explore / chk.add in the calling process)
    def explore(self, name, *a, **k):
        import re
        if self._filter and not re.search(self._filter, name):
            return SkippedPaths()
        return self._chk.explore(self._pref + name, *a, **k)

    def add(self, name, *a, **k):
        import re
        if self._filter and not re.search(self._filter, name):
            return None
        return self._chk.add(self._pref + name, *a, **k)


def include_dependency(chk, tasks, dep, only, why):
    """Property `chk.pid` is stated in terms of routines whose contract is discharged by the check of property `dep` (e.g. ECDH uses
    ScalarMult).  So that a change to such a routine is decided by *this* check too -- not only by the one that owns the contract --
    the task groups `only` of the dependency's check are built and run as part of this one; their obligations are named dep-<ID>/... and a
    failure is a violation of this property (its claim rests on the broken contract)."""
    import importlib
    mod = importlib.import_module('checks.' + dep.lower())
    view = _DepView(chk, dep)
    dep_tasks = mod.build(view, only)
    pref = 'dep-%s/' % dep

    def wrap(fn):
        def task(sub):
            fn(sub)
            for o in sub.obls:
                o.name = pref + o.name
        return task
    for name, fn in dep_tasks:
        tasks.append((pref + name, wrap(fn)))
    if view.breach_fallback:
        fb = getattr(chk, 'breach_fallback', None) or {}
        fb.update({pref + k: v for k, v in view.breach_fallback.items()})
        chk.breach_fallback = fb
    chk.extra.setdefault('dependencies_rechecked', []).append({'property': dep, 'task_groups': only or 'all', 'tasks': len(dep_tasks), 'why': why})
    return dep_tasks


def include_ring_dependency(chk, tasks, dep, ringname, parts, why):
    """same for the ring checks C01 / C02, whose obligation families are functions of checks.ring: each listed family becomes one task"""
    from . import ring as R
    prog = load_prog()
    gl = load_globals(prog)
    for part in parts:
        flt = None
        if isinstance(part, tuple):     # (family, regular expression selecting harnesses of the family by name)
            part, flt = part

        def task(sub, part=part, flt=flt):
            view = _DepView(sub, dep)
            view._filter = flt
            getattr(R, part)(view, prog, R.Ring(ringname), gl)
        tasks.append(('dep-%s/%s%s' % (dep, part, '[%s]' % flt if flt else ''), task))
    chk.extra.setdefault('dependencies_rechecked', []).append({'property': dep, 'task_groups': ' '.join(p if isinstance(p, str) else '%s[%s]' % p for p in parts), 'tasks': len(parts), 'why': why})


# --------------------------------------------------------------------- check driver
class Check:
    def __init__(self, pid, level='model_checking'):
        self.pid = pid
        self.tier = os.environ.get('VERIF_TIER', 'quick')
        for i, a in enumerate(sys.argv):
            if a == '--tier' and i + 1 < len(sys.argv):
                self.tier = sys.argv[i + 1]
        self.seed = int(os.environ.get('VERIF_SEED', '0') or 0)
        self.level = level
        self.t0 = time.time()
        self.obls = []
        self.funcs = set()
        self.instrs = 0
        self.paths = 0
        self.bounds = []
        self.outside = []
        self.stubs = []
        self.assumptions = []
        self.summaries = {}
        self.violations = []  # (obligation name, detail dict)
        self.notes = []
        self.samples = []
        self.path_queries = 0
        self.path_solver_time = 0.0
        self.extra = {}
        self.skip_prefixes = []
        self.jobs = int(os.environ.get('VERIF_JOBS', '16'))
        rdir = os.path.join(EVIDENCE_DIR, 'replay')
        if os.path.isdir(rdir) and not getattr(self, 'quiet', False) and _PARENT is None:
            for fn in os.listdir(rdir):
                if fn.startswith(pid + '_'):
                    try:
                        os.unlink(os.path.join(rdir, fn))
                    except OSError:
                        pass

    @property
    def thorough(self):
        return self.tier == 'thorough'

    def log(self, *a):
        ln = '[%s %6.1fs] %s' % (self.pid, time.time() - self.t0, ' '.join(str(x) for x in a))
        if getattr(self, 'quiet', False):
            self.logbuf = getattr(self, 'logbuf', [])
            self.logbuf.append(ln)
        else:
            print(ln, flush=True)

    def _skipped(self, name):
        return any(name == p or name.startswith(p + '/') or name.startswith(p + '#') for p in self.skip_prefixes)

    def add(self, name, pc, goal, **kw):
        if self.skip_prefixes and self._skipped(name):
            return None
        o = smt.Obligation(name, pc, goal, **kw)
        self.obls.append(o)
        return o

    def explore(self, name, harness, max_paths=20000, expect_panic=False, allow_panic=None, unwind_ok=False, **okw):
        """run harness over all paths; turn ctx.check() calls into obligations.
        A reachable Go panic that the harness did not catch is itself a failed obligation
        (unless allow_panic(panic) says it is expected)."""
        ex = X.Explorer(max_paths=max_paths)
        t0 = time.time()
        try:
            paths = ex.run(harness)
        except X.MissingFunction as e:
            # the harness drives a function the current tree does not have (internal helper renamed / inlined / removed): nothing to
            # decide here; the obligations this harness would have produced (and its witnesses, named <label>/...) are dropped and
            # the skip is reported.  The behaviour of whatever replaced the helper is the business of the harnesses of its callers.
            self.skip_prefixes.append(name)
            msg = 'harness %s skipped: function %s is not in the current tree' % (name, e)
            self.log('NOTE: ' + msg)
            if msg not in self.notes:
                self.notes.append(msg)
            self.obls = [o for o in self.obls if not self._skipped(o.name)]
            return SkippedPaths()
        self.paths += len(paths)
        self.path_queries += ex.psolver.queries
        self.path_solver_time += ex.psolver.time
        n_ob = 0
        for i, pr in enumerate(paths):
            for (oname, pc, goal) in pr.obligations:
                kw = dict(okw)
                if oname.startswith('bv:'):  # byte-level claims are always decided on the exact BV encoding
                    oname = oname[3:]
                    kw['mode'] = 'bv'
                    kw.pop('extra_int', None)
                self.add('%s/%s#p%d' % (name, oname, i), pc, goal, **kw)
                n_ob += 1
            if pr.outcome == 'panic':
                if allow_panic is not None and allow_panic(pr.value):
                    continue
                # reachable (path conditions were checked feasible) unexpected panic
                self.add('%s/no-panic#p%d' % (name, i), pr.pc, False, meta={'panic': str(pr.value)}, **okw)
            elif pr.outcome == 'unwind':
                if not unwind_ok:
                    self.add('%s/unwinding-assertion#p%d' % (name, i), pr.pc, False, meta={'unwind': str(pr.value)}, **okw)
        if os.environ.get('VERIF_VERBOSE') or time.time() - t0 > 5:
            self.log('explored %s: %d paths, %d obligations, %.1fs (path solver %d queries)' % (
                name, len(paths), n_ob, time.time() - t0, ex.psolver.queries))
        return paths

    # ------------------------------------------------------------------ parallel exploration
    def run_tasks(self, tasks, jobs=None, quick_ms=4000):
        """tasks: list of (name, fn) where fn(sub: Check) performs explore()/add() calls on a private
        sub-check.  Tasks run in forked worker processes; each worker builds the SMT text of its
        obligations, tries the in-process solver, and ships results (and still-open SMT problems) back."""
        import multiprocessing as mp
        jobs = jobs or self.jobs
        global _TASKS, _PARENT
        _TASKS = tasks
        _PARENT = self
        ctx = mp.get_context('fork')
        tmo = float(os.environ.get('VERIF_TASK_TIMEOUT', '21600' if self.thorough else '3600'))
        with ctx.Pool(min(jobs, max(1, len(tasks)))) as pool:
            pending = [(i, pool.apply_async(_run_task, ((i, quick_ms),))) for i in range(len(tasks))]
            t_start = time.time()
            for i, ar in pending:
                try:
                    # the budget is per check run: a worker that died or hangs must never block the check forever
                    res = ar.get(timeout=max(5.0, tmo - (time.time() - t_start)) if tmo else None)
                except mp.TimeoutError:
                    res = {'name': tasks[i][0], 'error': 'task did not finish within the task budget (%ds)' % tmo}
                except Exception as e:  # worker crashed
                    res = {'name': tasks[i][0], 'error': 'worker failed: %r' % (e,)}
                self._merge(res)
            pool.terminate()

    def _merge(self, res):
        if res.get('error') and res['name'] in getattr(self, 'breach_fallback', {}):
            # a task with a registered fall-back layer: when its (abstract) interpretation cannot run the current tree at all --
            # the code left the abstraction, or uses something the abstract contracts do not model -- the functions it covers are
            # decided by the fall-back layer alone (weaker, stated bound) instead of ending without a verdict
            fb = self.breach_fallback[res['name']]
            if isinstance(fb, tuple) and fb[0] == 'breach-only':
                # this layer may be given up only when the code left its abstraction, not on any other failure of the machinery
                if not res.get('breach'):
                    self.log('ENGINE-ERROR in task %s:\n%s' % (res['name'], res['error']))
                    self.engine_errors = getattr(self, 'engine_errors', 0) + 1
                    return
                fb = fb[1]
            res['breach'] = res.get('breach') or res.get('exc') or 'task failed'
            self.log('layer not applicable: task %s left its abstraction (%s); claim for it rests on: %s' % (res['name'], res['breach'][:160], fb))
            self.extra.setdefault('layers_not_applicable', []).append({'task': res['name'], 'reason': res['breach'][:300], 'covered_by': fb})
            self.outside.append('task %s: its abstract interpretation has no image of the current tree (%s); the functions it covers are decided only within the bounds of: %s'
                                % (res['name'], res['breach'][:160], fb))
            return
        if res.get('error'):
            self.log('ENGINE-ERROR in task %s:\n%s' % (res['name'], res['error']))
            self.engine_errors = getattr(self, 'engine_errors', 0) + 1
            return
        for od in res['obls']:
            o = smt.Obligation(od['name'], [], None)
            for k, v in od.items():
                setattr(o, k, v)
            self.obls.append(o)
        self.paths += res['paths']
        self.path_queries += res['path_queries']
        self.path_solver_time += res['path_solver_time']
        self.funcs |= set(res['funcs'])
        self.instrs += res['instrs']
        for b in res['bounds']:
            if b not in self.bounds:
                self.bounds.append(b)
        for k in ('outside', 'stubs', 'assumptions', 'notes'):
            for b in res[k]:
                if b not in getattr(self, k):
                    getattr(self, k).append(b)
        self.samples += res['samples'][:2]
        if res.get('log'):
            for ln in res['log']:
                print(ln, flush=True)

    def note_machine(self, m):
        self.funcs |= m.called
        self.instrs += m.instr_count

    def discharge(self, portfolio=('z3new', 'z3new2')):
        def lg(o):
            if o.result != o.expect:
                self.log('  %s -> %s (%.1fs %s) %s' % (o.name, o.result, o.time, o.solver, (o.msg or '')[:200]))
        todo = [o for o in self.obls if o.result is None or (o.result != o.expect and o.solver == 'z3py' and o.result == 'unknown')]
        self.log('discharging %d obligations with the external portfolio (%d already decided in-process)' % (len(todo), len(self.obls) - len(todo)))
        smt.discharge(todo, jobs=max(1, self.jobs // len(portfolio)), portfolio=portfolio, workdir=workdir(), log=lg)

    def cross_check(self, limit=60, timeout=30):
        """thorough tier: re-decide a sample of discharged obligations with cvc5 and z3 4.8.12; a definite answer that
        differs from the primary solver's is an engine error (the encoding or a solver is wrong), never a verdict"""
        import concurrent.futures as cf
        cand = [o for o in self.obls if o.smt and o.result == o.expect and not o.trivial]
        cand = sorted(cand, key=lambda o: o.hash)[:limit]
        stats = {'cvc5': {'agree': 0, 'inconclusive': 0}, 'z3old': {'agree': 0, 'inconclusive': 0}}
        bad = []

        def one(o, sv):
            r, _, dt, msg = smt.run_solver(o.smt.replace('(get-model)\n', ''), sv, timeout, workdir())
            return o, sv, r
        with cf.ThreadPoolExecutor(max_workers=self.jobs) as ex:
            futs = [ex.submit(one, o, sv) for o in cand for sv in ('cvc5', 'z3old')]
            for f in futs:
                o, sv, r = f.result()
                if r in ('sat', 'unsat'):
                    if r == o.result:
                        stats[sv]['agree'] += 1
                    else:
                        bad.append((o.name, sv, r, o.result))
                else:
                    stats[sv]['inconclusive'] += 1
        self.extra['cross_solver'] = {'sampled': len(cand), 'stats': stats, 'disagreements': bad[:5]}
        self.log('cross-solver diff on %d obligations: %s' % (len(cand), stats))
        if bad:
            self.engine_errors = getattr(self, 'engine_errors', 0) + 1
            self.log('ENGINE-ERROR: solvers disagree: %s' % bad[:3])

    def finish(self, replayer=None):
        if self.thorough and os.environ.get('VERIF_NO_CROSS') != '1':
            self.cross_check()
        known = [k for k in load_known() if k.get('property') == self.pid]
        failed = [o for o in self.obls if o.result != o.expect]
        viol_lines = []
        known_lines = []
        rdir = os.path.join(EVIDENCE_DIR, 'replay')
        os.makedirs(rdir, exist_ok=True)
        for o in failed:
            base = o.name.split('#')[0]
            detail = {'property': self.pid, 'obligation': o.name, 'result': o.result, 'expected': o.expect,
                      'solver': o.solver, 'exact_encoding': o.exact, 'model': o.model, 'smt_sha256_16': o.hash,
                      'meta': o.meta}
            confirmed = None
            if replayer is not None:
                try:
                    confirmed = replayer(o, detail)
                except Exception as e:  # replay machinery must never hide a verdict
                    detail['replay_error'] = repr(e)
            detail['confirmed'] = confirmed
            kf = None
            for k in known:
                if k.get('obligation') == base and (not k.get('input') or k.get('input') == detail.get('input_id')):
                    kf = k
            if kf is not None:
                known_lines.append('KNOWN-FINDING: property=%s %s' % (self.pid, kf['_line'][len('finding:'):].strip()))
                continue
            rp = os.path.join(rdir, '%s_%s.json' % (self.pid, hashlib.md5(o.name.encode()).hexdigest()[:10]))
            with open(rp, 'w') as fh:
                json.dump(detail, fh, indent=1, default=str)
            viol_lines.append('VIOLATION property=%s replay=%s' % (self.pid, rp))
            self.violations.append((o.name, detail))
        self.write_evidence(len(viol_lines))
        if self.violations:
            import re
            groups = {}
            for nm, det in self.violations:
                g = re.sub(r'\d+', 'N', nm.split('#')[0])
                groups.setdefault(g, []).append((nm, det))
            self.log('failed obligations by family (digits -> N):')
            for g, l in sorted(groups.items(), key=lambda kv: -len(kv[1]))[:14]:
                nm, det = l[0]
                self.log('  %4d x %s   e.g. %s -> %s %s' % (len(l), g, nm, det['result'], str(det.get('model') or '')[:160]))
        for ln in sorted(set(known_lines)):
            print(ln)
        for ln in viol_lines[:50]:
            print(ln)
        if getattr(self, 'engine_errors', 0):
            # a violation decided by the solver stands on its own (exit 1); without one there is no verdict at all (exit 3)
            print('ENGINE-ERROR: %d task(s) failed inside the verification machinery; %s' % (
                self.engine_errors, 'the violations above were decided independently of them' if viol_lines else 'no verdict'))
            sys.exit(1 if viol_lines else 3)
        ok = not viol_lines
        self.log('%s: %d obligations, %d discharged, %d violations, %.1fs' % (
            'PASS' if ok else 'FAIL', len(self.obls), len(self.obls) - len(failed), len(viol_lines), time.time() - self.t0))
        sys.exit(0 if ok else 1)

    def write_evidence(self, nviol):
        os.makedirs(EVIDENCE_DIR, exist_ok=True)
        nontriv = {}
        st = {}
        for o in self.obls:
            if not o.trivial:
                nontriv[o.hash] = o
            if o.solver:
                st[o.solver] = st.get(o.solver, 0.0) + o.time
        samples = list(self.samples)
        for o in sorted(self.obls, key=lambda o: -o.time)[:12]:
            samples.append({'obligation': o.name, 'mode': o.mode, 'verdict': o.result, 'expected': o.expect,
                            'solver': o.solver, 'time_s': round(o.time, 3), 'smt_sha256_16': o.hash,
                            'exact_encoding': o.exact})
        ev = {
            'property_id': self.pid,
            'tier': self.tier,
            'seed': self.seed,
            'level': self.level,
            'coverage': {
                'evaluations': len(self.obls) + self.path_queries,
                'distinct_nontrivial': len(nontriv) + self.path_queries,
                'distinct_nontrivial_obligations': len(nontriv),
                'rule': 'one evaluation = one solver query (obligation or path-feasibility). distinct_nontrivial = obligations with '
                        'distinct SMT-LIB text whose negated goal is not syntactically constant, plus the path-feasibility queries that '
                        'missed the per-harness query cache (the deciding queries of the taint, write-set and separation checks); every one '
                        'is decided by an SMT solver for ALL values of its symbolic inputs inside the stated bounds',
                # model-checking keys: a state is one symbolic end state (a fully explored path of a harness, standing for every
                # concrete input that drives the code down it); a transition is one symbolically executed SSA (or assembly) instruction
                'states': max(1, self.paths),
                'transitions': max(1, self.instrs, self.path_queries + len(self.obls)),
                'traces_validated_against_impl': int(self.extra.get('native_replays', 0)) + int(self.extra.get('translator_validation_comparisons', 0)),
                'obligations': len(self.obls),
                'discharged': len([o for o in self.obls if o.result == o.expect]),
                'reachability_witnesses': len([o for o in self.obls if o.expect == 'sat']),
                'paths_explored': self.paths,
                'path_feasibility_queries': self.path_queries,
                'functions_encoded': sorted(self.funcs),
                'ssa_instructions_executed': self.instrs,
                'bounds': self.bounds,
                'outside_bounds': self.outside,
                'stubs': self.stubs,
                'summaries_used': self.summaries,
                'solver_time_s': {k: round(v, 2) for k, v in st.items()},
                'path_solver_time_s': round(self.path_solver_time, 2),
                'samples': samples,
                'notes': self.notes,
                'checker_cmd': './check %s --tier %s' % (self.pid, self.tier),
                'trusted_base': ['golang.org/x/tools/go/ssa v0.29.0 (front end)', 'z3 5.1.0 (z3-new)', '/verif/engine (SSA->SMT translator)'] + self.stubs,
            },
            'assumptions': self.assumptions,
            'wall_s': round(time.time() - self.t0, 2),
            'violations': nviol,
        }
        ev['coverage'].update(self.extra)
        with open(os.path.join(EVIDENCE_DIR, '%s.json' % self.pid), 'w') as fh:
            json.dump(ev, fh, indent=1, default=str)


# --------------------------------------------------------------------- size thresholds read from the code
def dispatch_lengths(prog, roots, lo=2, hi=1100, depth=3, base=()):
    """List lengths at which the routines `roots` (SSA function names) could change algorithm: every integer constant c in [lo, hi] that
    the current tree's SSA of these functions -- and of the module functions they call, `depth` levels down -- compares a value with
    (BinOp < <= > >= == !=), as {c-1, c, c+1}.  A batch threshold, a chunk size or a small-input fast path of a changed tree is thereby
    exercised on both sides without the harness knowing it in advance.  Returns a sorted list (merged with `base`)."""
    seen, todo, consts = set(), [(r, 0) for r in roots], set()
    while todo:
        fn, d = todo.pop()
        if fn in seen:
            continue
        seen.add(fn)
        f = prog.funcs.get(fn)
        if not f or 'blocks' not in f:
            continue
        for b in f['blocks']:
            for I in b['instrs']:
                if I['op'] == 'BinOp' and I.get('tok') in ('<', '<=', '>', '>=', '==', '!='):
                    for side in ('x', 'y'):
                        v = I.get(side)
                        if isinstance(v, dict) and v.get('k') == 'c' and 'i' in v:
                            try:
                                c = int(v['i'])
                            except (TypeError, ValueError):
                                continue
                            if lo <= c <= hi:
                                consts.add(c)
                elif I['op'] in ('Call', 'Go', 'Defer') and d < depth:
                    fv = (I.get('call') or {}).get('fn') or {}
                    n = fv.get('n') if isinstance(fv, dict) and fv.get('k') == 'f' else None
                    if n and n.startswith(('(*' + MOD, MOD)) and n not in seen:
                        todo.append((n, d + 1))
    out = set(base)
    for c in consts:
        out.update(x for x in (c - 1, c, c + 1) if x >= 0)
    return sorted(out), sorted(consts)


# --------------------------------------------------------------------- Point objects built from the current tree's struct type
POINT_T = MOD + '.Point'
_POINT_KNOWN = ('x', 'y', 'z', 'isValid')


def point_fields(prog):
    """[(field name, type id)] of secp256k1.Point in the current tree"""
    t = prog.under(prog.tid_by_str[POINT_T])
    return [(f['name'], f['t']) for f in t['fields']]


def point_field_index(prog, fname):
    for i, (n, _) in enumerate(point_fields(prog)):
        if n == fname:
            return i
    raise X.Unsupported('secp256k1.Point has no field %s in the current tree' % fname)


def arbitrary_value(m, tid, name):
    """an arbitrary (symbolic) value of a Go type: integers and bools become fresh variables, aggregates are filled recursively"""
    P = m.prog
    t = P.under(tid)
    k = t['k']
    if k == 'basic':
        if t.get('bool'):
            return tm.boolvar(name)
        if t.get('int'):
            return tm.var(name, t['bits'])
        return m.zero(tid)
    if k == 'array':
        return [arbitrary_value(m, t['elem'], '%s_%d' % (name, i)) for i in range(t['len'])]
    if k == 'struct':
        return [arbitrary_value(m, f['t'], '%s_%s' % (name, f['name'])) for f in t['fields']]
    return m.zero(tid)


def point_tree(m, name, x, y, z, valid, extra='zero'):
    """object tree of a secp256k1.Point laid out by the struct type of the CURRENT tree: x, y, z, isValid are placed by field name; every other
    field (bookkeeping a changed tree may have added) is the Go zero value for an operand the harness constructs (extra='zero') or an
    arbitrary symbolic value for a receiver's prior content (extra='any': whatever an earlier use of the object left there)."""
    given = {'x': x, 'y': y, 'z': z, 'isValid': valid}
    tree = []
    for fn, tid in point_fields(m.prog):
        if fn in given:
            tree.append(given[fn])
        elif extra == 'any':
            tree.append(arbitrary_value(m, tid, '%s_%s' % (name, fn)))
        else:
            tree.append(m.zero(tid))
    missing = [k for k in _POINT_KNOWN if k not in [f for f, _ in point_fields(m.prog)]]
    if missing:
        raise X.Unsupported('secp256k1.Point lacks field(s) %s in the current tree' % missing)
    return tree


def point_get(prog, obj, fname):
    return obj.tree[point_field_index(prog, fname)]


def point_extra_fields(prog):
    return [(i, n, t) for i, (n, t) in enumerate(point_fields(prog)) if n not in _POINT_KNOWN and prog.types[t].get('size', 1) != 0 and n != '_']


def cur_prog():
    """the SSA program of the current tree loaded by this process (the Point layout is the same under every build-tag set)"""
    return next(iter(_prog_cache.values()))


def point_extra_state(prog, obj):
    """[(field name, value, width)] of the scalar (bool / integer) fields of a Point object other than x, y, z, isValid"""
    out = []
    for i, n, t in point_extra_fields(prog):
        ut = prog.under(t)
        if ut['k'] == 'basic' and ut.get('bool'):
            out.append((n, obj.tree[i], 0))
        elif ut['k'] == 'basic' and ut.get('int'):
            out.append((n, obj.tree[i], ut['bits']))
    return out
