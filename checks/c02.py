"""C02 Scalar operations are exact arithmetic modulo the group order n."""
import os
from .common import Check, load_prog, load_globals
from . import ring as R


def main():
    chk = Check('C02')
    prog = load_prog()
    gl = load_globals(prog)
    ring = R.Ring('scalar')
    only = os.environ.get('VERIF_ONLY')
    if not only or 'lin' in only:
        R.linear_kernels(chk, prog, ring, gl)
    if not only or 'mul' in only:
        R.mult_kernels(chk, prog, ring, gl)
    if not only or 'meth' in only:
        R.methods(chk, prog, ring, gl)
    if not only or 'chain' in only:
        R.chains(chk, prog, ring, gl)
    chk.discharge()
    chk.finish()


if __name__ == '__main__':
    from .common import run_main
    run_main(main)
