"""Abstract-group interpretation of secp256k1.Point for the scalar-multiplication layers (C04, C05, C16).

A Point is a formal Z-linear combination  sum_i c_i * B_i  of symbolic base points with z3 Int coefficients
(the free abelian group on the bases maps homomorphically onto E(F_p), so an identity of combinations is an
identity of curve points).  The point primitives the ladders use are replaced by their C03 contracts
(addComplete = +, doubleComplete = 2*, Negate = -, selects, Identity = 0, Set = copy); the ladders, window
logic, table construction and lookups themselves are executed from their real SSA.
"""
import z3
from .common import tm, X, MOD

ROOT = MOD + '.'
PT = '(*' + MOD + '.Point).'
POINT_T = MOD + '.Point'
INVALID = 'invalid'


class Lin:
    """linear combination {base name: z3 Int expr}"""
    __slots__ = ('c',)

    def __init__(self, c=None):
        self.c = dict(c or {})

    def __add__(self, o):
        r = dict(self.c)
        for k, v in o.c.items():
            r[k] = (r[k] + v) if k in r else v
        return Lin(r)

    def scale(self, s):
        return Lin({k: v * s for k, v in self.c.items()})

    def neg(self):
        return self.scale(-1)

    def coeff(self, b):
        return self.c.get(b, z3.IntVal(0))

    def __repr__(self):
        return 'Lin(%s)' % ', '.join('%s*%s' % (z3.simplify(v) if isinstance(v, z3.ExprRef) else v, k) for k, v in self.c.items())


def base(name):
    return Lin({name: z3.IntVal(1)})


ZERO = Lin()


def root_of(m, b):
    """the base symbol b is a fixed image (negation, endomorphism) of which free base point"""
    f = getattr(m, 'grp_root', None)
    return f(b) if f else b


def eq_coeff(m, got, b, e):
    """the coefficient of base b in `got` is e -- or b is, on this path, known to be the point at infinity (the code asked IsIdentity and
    the answer is in the path condition), in which case every multiple of b is the same point"""
    c = got.coeff(b) == e
    zb = getattr(m, 'grp_zero', {}).get(root_of(m, b))
    if zb is None:
        return c
    return z3.Or(m.bvlow.lo(tm.eq(zb, 1, 1)), c)


def z3cond(low, c):
    """T Bool / python bool -> z3 Bool"""
    if isinstance(c, tm.T):
        return low.lo(c)
    return z3.BoolVal(bool(c))


def ite_lin(cond, a, b):
    keys = set(a.c) | set(b.c)
    return Lin({k: z3.If(cond, a.coeff(k), b.coeff(k)) for k in keys})


def install(m, endo=None):
    """endo: dict base -> base' for the endomorphism mulBeta (P -> lambda*P as a new base symbol)"""
    low = tm.BVLower()
    m.bvlow = low
    m.abstract_types[POINT_T] = lambda: X.Abs('grp', INVALID)
    endo = endo or {}

    def get(ptr, allow_invalid=False):
        v = m.load(ptr)
        if not isinstance(v, X.Abs):
            raise X.AbstractionBreach("point %r" % (v,))
        if v.v is INVALID and not allow_invalid:
            raise X.GoPanic("secp256k1: use of uninitialized Point")
        return v.v

    def raw(ptr):
        v = m.load(ptr)
        return ZERO if v.v is INVALID else v.v

    def put(ptr, lin):
        m.store(ptr, X.Abs('grp', lin))
        return ptr

    def newpt(lin):
        return X.Ptr(m.new_obj(None, tree=X.Abs('grp', lin), label='Point'), ())
    m.grp_get, m.grp_put, m.grp_new, m.grp_raw = get, put, newpt, raw
    m.grp_zero = {}

    def c_isidentity(m, a):
        # The free abelian group does not say which combinations are the point at infinity.  Exact cases: the empty combination is;
        # +-B for a base symbol B is iff B is, which is one more symbolic fact about the (arbitrary) base point: a 1-bit variable the code
        # may branch on, and under which every multiple of B is the same point (eq_coeff).  Anything else has no image here.
        p = get(a[0])
        nz = {k: v for k, v in p.c.items() if not z3.is_true(z3.simplify(v == 0))}
        if not nz:
            return 1
        if len(nz) == 1:
            (b, v), = nz.items()
            if z3.is_true(z3.simplify(z3.Or(v == 1, v == -1))):
                r = root_of(m, b)
                if r == 'G':
                    return 0   # the generator is not the point at infinity
                if r not in m.grp_zero:
                    m.grp_zero[r] = tm.var('isid_' + r, 1)
                return tm.zext(m.grp_zero[r], 64)
        raise X.AbstractionBreach("IsIdentity of a computed point %r" % (p,))
    m.contracts[PT + 'IsIdentity'] = c_isidentity

    def merge(c, a, b):
        if a.v is INVALID or b.v is INVALID:
            if a.v is b.v:
                return a
            raise X.Unsupported("merge of valid and invalid point")
        return X.Abs('grp', ite_lin(z3cond(low, c), a.v, b.v))
    m.abs_merge = merge
    C = m.contracts
    C[PT + 'Identity'] = lambda m, a: put(a[0], ZERO)
    C[ROOT + 'NewIdentityPoint'] = lambda m, a: newpt(ZERO)
    C[ROOT + 'newRcvr'] = lambda m, a: newpt(INVALID)
    C[ROOT + 'NewPointFrom'] = lambda m, a: newpt(get(a[0]))
    C[PT + 'Set'] = lambda m, a: put(a[0], get(a[1]))
    C[PT + 'Negate'] = lambda m, a: put(a[0], get(a[1]).neg())
    # internal (unchecked) primitives: operate on whatever is stored
    C[PT + 'addComplete'] = lambda m, a: put(a[0], raw(a[1]) + raw(a[2]))
    C[PT + 'doubleComplete'] = lambda m, a: put(a[0], raw(a[1]).scale(2))
    C[PT + 'Add'] = lambda m, a: put(a[0], get(a[1]) + get(a[2]))
    C[PT + 'Double'] = lambda m, a: put(a[0], get(a[1]).scale(2))

    def c_assert_valid(m, a):
        # variadic validity assertion: panics for a zero-value Point, reads nothing else (the flag has no other image in this layer)
        for p in m.slice_elems(a[0]):
            get(p)
        return None
    C[ROOT + 'assertPointsValid'] = c_assert_valid

    def c_condneg(m, a):
        p = get(a[1])
        c = tm.eq(a[2], 0, 64)
        return put(a[0], ite_lin(z3cond(low, c), p, p.neg()))
    C[PT + 'ConditionalNegate'] = c_condneg

    def c_uncsel(m, a):
        c = tm.eq(a[3], 0, 64)
        return put(a[0], ite_lin(z3cond(low, c), raw(a[1]), raw(a[2])))
    C[PT + 'uncheckedConditionalSelect'] = c_uncsel

    def c_mulbeta(m, a):
        p = get(a[1])
        r = {}
        for k, v in p.c.items():
            if k not in endo:
                raise X.Unsupported("mulBeta of base %s" % k)
            r[endo[k]] = v
        return put(a[0], Lin(r))
    C[PT + 'mulBeta'] = c_mulbeta
    return m


SUMMARY = {
    'Point primitives (abstract group)': 'addComplete/Add = +, doubleComplete/Double = 2*, Negate = -, Identity = 0, Set/NewPointFrom = copy, '
                                         '(unchecked)ConditionalSelect / ConditionalNegate = select, mulBeta = the endomorphism lambda: discharged by C03 (and C04 const/* for beta, lambda)',
}
