"""C15 Hash-to-curve equals RFC 9380 (secp256k1 XMD:SHA-256 SSWU RO/NU) on every input."""
import os
from .common import Check, load_prog, load_globals, new_machine, tm, X, MOD, P_FIELD, sym_bytes, cat_bytes, cat_limbs, sym_limbs
from . import models, stubs, c06
from .c06 import fmul, fadd, fneg

H2C = MOD + '/secec/h2c.'
SWU = MOD + '/internal/swu.'
ROOT = MOD + '.'
PT = '(*' + MOD + '.Point).'
FE = '(*' + MOD + '/internal/field.Element).'
P = P_FIELD

# RFC 9380 section 8.7 / E.1 parameters (specification side)
Z_RFC = P - 11
A_ISO = 0x3f8731abdd661adca08a5558f0f5d272e953d363cb6f0e5d405447c01a444533
B_ISO = 1771
K = {
    (1, 0): 0x8e38e38e38e38e38e38e38e38e38e38e38e38e38e38e38e38e38e38daaaaa8c7,
    (1, 1): 0x7d3d4c80bc321d5b9f315cea7fd44c5d595d2fc0bf63b92dfff1044f17c6581,
    (1, 2): 0x534c328d23f234e6e2a413deca25caece4506144037c40314ecbd0b53d9dd262,
    (1, 3): 0x8e38e38e38e38e38e38e38e38e38e38e38e38e38e38e38e38e38e38daaaaa88c,
    (2, 0): 0xd35771193d94918a9ca34ccbb7b640dd86cd409542f8487d9fe6b745781eb49b,
    (2, 1): 0xedadc6f64383dc1df7c4b2d51b54225406d36b641f5e41bbc52a56612a8c6d14,
    (3, 0): 0x4bda12f684bda12f684bda12f684bda12f684bda12f684bda12f684b8e38e23c,
    (3, 1): 0xc75e0c32d5cb7c0fa9d0a54b12a0a6d5647ab046d686da6fdffc90fc201d71a3,
    (3, 2): 0x29a6194691f91a73715209ef6512e576722830a201be2018a765e85a9ecee931,
    (3, 3): 0x2f684bda12f684bda12f684bda12f684bda12f684bda12f684bda12f38e38d84,
    (4, 0): 0xfffffffffffffffffffffffffffffffffffffffffffffffffffffffefffff93b,
    (4, 1): 0x7a06534bb8bdb49fd5e9e6632722c2989467c1bfc8e8d978dfb425d2685c2573,
    (4, 2): 0x6484aa716545ca2cf3a70c3fa8fe337e0a3d21162f0d6299a7bf8192bfd2a76f,
}


def xmd_spec(msg, dst, length):
    """RFC 9380 5.3.1 expand_message_xmd with H = SHA-256 (b = 32, s = 64); returns byte terms or an error string"""
    b, s = 32, 64
    if len(dst) == 0:
        return 'err'
    if length == 0 or length > 65535:
        return 'err'
    if len(dst) > 255:
        dst = stubs.H('sha256', [[ord(c) for c in 'H2C-OVERSIZE-DST-'], dst])
    ell = (length + b - 1) // b
    if ell > 255:
        return 'err'
    dst_prime = list(dst) + [len(dst)]
    b0 = stubs.H('sha256', [[0] * s, msg, [length >> 8, length & 0xff], [0], dst_prime])
    bs = [stubs.H('sha256', [b0, [1], dst_prime])]
    for i in range(2, ell + 1):
        x = [tm.bv('xor', u, v, 8) for u, v in zip(b0, bs[-1])]
        bs.append(stubs.H('sha256', [x, [i], dst_prime]))
    out = [y for blk in bs for y in blk]
    return out[:length]


def finv(a):
    c = tm._conc(a)
    if c is not None:
        return pow(c, P - 2, P)
    return tm.uf('inv_p', [a], 256)


def sqrt_ratio_uf(u, v):
    isq = tm.uf('sqrt_ratio_isqr', [tm.lift(u, 256), tm.lift(v, 256)], 0)
    y = tm.uf('sqrt_ratio_y', [tm.lift(u, 256), tm.lift(v, 256)], 256)
    return isq, y


def sgn0(x):
    return tm.extract(tm.lift(x, 256), 0, 0)


def swu_spec(u):
    """RFC 9380 F.2 straight-line simplified SWU (steps 1-26) over the same field symbols"""
    A, B, Zc = A_ISO, B_ISO, Z_RFC
    tv1 = fmul(u, u)
    tv1 = fmul(Zc, tv1)
    tv2 = fmul(tv1, tv1)
    tv2 = fadd(tv2, tv1)
    tv3 = fadd(tv2, 1)
    tv3 = fmul(B, tv3)
    tv4 = tm.ite(tm.bnot(tm.eq(tv2, 0, 256)), fneg(tv2), Zc, 256)        # CMOV(Z, -tv2, tv2 != 0)
    tv4 = fmul(A, tv4)
    tv2 = fmul(tv3, tv3)
    tv6 = fmul(tv4, tv4)
    tv5 = fmul(A, tv6)
    tv2 = fadd(tv2, tv5)
    tv2 = fmul(tv2, tv3)
    tv6 = fmul(tv6, tv4)
    tv5 = fmul(B, tv6)
    tv2 = fadd(tv2, tv5)
    x = fmul(tv1, tv3)
    is_gx1_square, y1 = sqrt_ratio_uf(tv2, tv6)
    y = fmul(tv1, u)
    y = fmul(y, y1)
    x = tm.ite(is_gx1_square, tv3, x, 256)
    y = tm.ite(is_gx1_square, y1, y, 256)
    e1 = tm.eq(sgn0(u), sgn0(y), 1)
    y = tm.ite(e1, y, fneg(y), 256)
    x = fmul(x, finv(tv4))                                                   # x = x / tv4
    return x, y


def iso_spec(xp, yp):
    """RFC 9380 E.1: returns (x, y, denominators_nonzero)"""
    xx = fmul(xp, xp)
    xxx = fmul(xx, xp)

    def poly(cs):
        # k3*x^3 + k2*x^2 + k1*x + k0 in the RFC's (and the code's) association
        acc = None
        for c, pw in cs:
            t = c if pw is None else (pw if c == 1 else fmul(c, pw))
            acc = t if acc is None else fadd(acc, t)
        return acc
    x_num = poly([(K[(1, 3)], xxx), (K[(1, 2)], xx), (K[(1, 1)], xp), (K[(1, 0)], None)])
    x_den = fadd(fadd(fmul(K[(2, 1)], xp), xx), K[(2, 0)])
    y_num = poly([(K[(3, 3)], xxx), (K[(3, 2)], xx), (K[(3, 1)], xp), (K[(3, 0)], None)])
    y_den = fadd(fadd(fadd(fmul(K[(4, 2)], xx), fmul(K[(4, 1)], xp)), xxx), K[(4, 0)])
    ok = tm.band(tm.bnot(tm.eq(x_den, 0, 256)), tm.bnot(tm.eq(y_den, 0, 256)))
    x = fmul(x_num, finv(x_den))
    y = fmul(yp, fmul(y_num, finv(y_den)))
    return x, y, ok


def main():
    chk = Check('C15')
    prog = load_prog()
    gl = load_globals(prog)
    only = os.environ.get('VERIF_ONLY', '')
    chk.summaries.update(models.VALUE_MODEL_SUMMARY)
    chk.summaries.update(c06.SUMMARY)
    chk.summaries['(*field.Element).SqrtRatio'] = '(is_square(u/v), y) as in RFC 9380 F.2.1.2: discharged by C01 field/sqrt/*'
    chk.stubs += stubs.STUB_NOTES
    tasks = []

    def install_hash_new(m):
        stubs.install_hash_stubs(m)
        stubs.install_crypto_hash(m)

        def c_new(m, a):
            if a[0] != 5:
                raise X.Unsupported("crypto.Hash.New for hash %r" % (a[0],))
            return X.Iface('stub.sha256', stubs.HashObj('sha256'))
        m.contracts['(crypto.Hash).New'] = c_new

    # ------------------------------------------------------------------ 1. expand_message_xmd
    def t_xmd(outlen, dstlen, msglen):
        def task(sub):
            def h(ctx):
                stubs.NARROW['on'] = False
                m = new_machine(prog, ctx, gl, value_model=True)
                install_hash_new(m)
                m.unwind = 300
                dst, msg = sym_bytes('dst', dstlen), sym_bytes('msg', msglen)
                outb = [0xEE] * outlen
                out = m.new_byte_slice(outb, 'out') if outlen else X.NILSLICE
                dst_s = m.new_byte_slice(dst, 'dst') if dstlen else X.NILSLICE
                msg_s = m.new_byte_slice(msg, 'msg') if msglen else X.NILSLICE
                err = m.call(H2C + 'expandMessageXMD', [out, 5, dst_s, msg_s])
                sub.note_machine(m)
                spec = xmd_spec(msg, dst, outlen)
                if err is not None:
                    ctx.check(spec == 'err', 'error-only-when-RFC9380-aborts')
                    return 'err'
                ctx.check(spec != 'err', 'must-fail-when-RFC9380-aborts')
                if spec != 'err':
                    got = m.slice_elems(out)
                    ctx.check(tm.eq(cat_bytes(got), cat_bytes(spec), 8 * outlen), 'bv:uniform_bytes=RFC9380-5.3.1')
                if dstlen:
                    ctx.check(tm.eq(cat_bytes(m.slice_elems(dst_s)), cat_bytes(dst), 8 * dstlen), "bv:caller's-DST-buffer-unchanged")
                if msglen:
                    ctx.check(tm.eq(cat_bytes(m.slice_elems(msg_s)), cat_bytes(msg), 8 * msglen), "bv:caller's-message-buffer-unchanged")
                return 'ok'
            sub.explore('xmd@out%d@dst%d@msg%d' % (outlen, dstlen, msglen), h, mode='bv')
        return task
    def t_xmd_adjacent(outlen, dstlen, msglen):
        def task(sub):
            def h(ctx):
                stubs.NARROW['on'] = False
                m = new_machine(prog, ctx, gl, value_model=True)
                install_hash_new(m)
                m.unwind = 300
                dst, msg, tail = sym_bytes('dst', dstlen), sym_bytes('msg', msglen), sym_bytes('tail', 8)
                buf = list(dst) + list(msg) + list(tail)
                bo = m.new_obj(None, tree=list(buf), label='caller buffer DST||msg||tail')
                dst_s = X.Slice(bo, (), 0, dstlen, len(buf))
                msg_s = X.Slice(bo, (), dstlen, msglen, len(buf) - dstlen)
                out = m.new_byte_slice([0xEE] * outlen, 'out')
                err = m.call(H2C + 'expandMessageXMD', [out, 5, dst_s, msg_s])
                sub.note_machine(m)
                spec = xmd_spec(msg, dst, outlen)
                ctx.check(err is None and spec != 'err', 'no-error')
                if err is None and spec != 'err':
                    ctx.check(tm.eq(cat_bytes(m.slice_elems(out)), cat_bytes(spec), 8 * outlen), 'bv:uniform_bytes=RFC9380-5.3.1-of-the-arguments-as-passed')
                now = m.slice_elems(X.Slice(bo, (), 0, len(buf), len(buf)))
                ctx.check(tm.eq(cat_bytes(now), cat_bytes(buf), 8 * len(buf)), "bv:caller's-buffer-unchanged-including-spare-capacity")
                return 'ok'
            sub.explore('xmd-adjacent@out%d@dst%d@msg%d' % (outlen, dstlen, msglen), h, mode='bv')
        return task
    if not only or 'xmd' in only:
        outs = [1, 31, 32, 33, 48, 64, 96, 97, 128] if not chk.thorough else [1, 31, 32, 33, 47, 48, 49, 64, 65, 95, 96, 97, 128, 255, 256, 1000, 8160]
        dsts = [1, 2, 16, 254, 255, 256, 257, 300] if not chk.thorough else [1, 2, 16, 43, 254, 255, 256, 257, 300, 1024]
        msgs = [0, 1, 3, 64, 65] if not chk.thorough else [0, 1, 3, 63, 64, 65, 128, 200]
        for o in outs:
            for d in dsts:
                for ml in msgs:
                    if chk.thorough or (o in (48, 96) or d in (255, 256) or ml in (0, 3)):
                        tasks.append(('xmd', t_xmd(o, d, ml)))
        for (o, d, ml) in ((48, 0, 3), (0, 5, 3), (8161, 5, 0), (8160, 5, 0)):
            tasks.append(('xmd-err', t_xmd(o, d, ml)))
        # the arguments as sub-slices of ONE caller buffer  out-of-band || DST || msg || tail : DST and msg have spare capacity that runs into
        # the neighbouring bytes, so an append() to either argument lands in the caller's memory (pure function of the inputs, RFC bytes)
        for (o, d, ml) in ((48, 16, 3), (96, 2, 1), (48, 255, 3), (48, 256, 3), (32, 1, 0), (97, 43, 64)) + (((48, 254, 65), (128, 300, 3), (48, 16, 0)) if chk.thorough else ()):
            tasks.append(('xmd-adj', t_xmd_adjacent(o, d, ml)))
        chk.bounds.append('expand_message_xmd: output lengths %s, DST lengths %s (oversize-DST path included), message lengths %s; error cases empty DST, zero length, ell > 255; '
                          'all byte contents' % (outs, dsts, msgs))
        chk.bounds.append('expand_message_xmd with DST and message passed as adjacent sub-slices of one caller buffer (spare capacity running into the neighbour): '
                          'output = RFC bytes of the arguments as passed, whole buffer unchanged')
        chk.outside.append('message / DST / output lengths outside the listed instance sets')

    # ------------------------------------------------------------------ 2. SWU and the isogeny: data flow = RFC 9380 F.2 / E.1
    def fm(ctx):
        m = new_machine(prog, ctx, gl, value_model=True)
        c06.install_field_contracts(m)

        def ev(p):
            return cat_limbs(list(m.load(p)[1]))

        def c_sqrtratio(m, a):
            u, v = ev(a[1]), ev(a[2])
            isq, y = sqrt_ratio_uf(u, v)
            m.store(X.Ptr(a[0].obj, a[0].path + (1,)), models.split_limbs(y))
            return (a[0], tm.ite(isq, 1, 0, 64))
        m.contracts[FE + 'SqrtRatio'] = c_sqrtratio
        return m, ev

    def t_swu(sub):
        def h(ctx):
            m, ev = fm(ctx)
            ul = sym_limbs('u')
            u = tm.lift(cat_limbs(ul), 256)
            ctx.assume(tm.ult(u, P, 256))
            uo = X.Ptr(m.new_obj(None, tree=[[], list(ul)], label='u'), ())
            x, y = m.call(SWU + 'MapToCurveSimpleSWU', [uo])
            sub.note_machine(m)
            xs, ys = swu_spec(u)
            ctx.check(tm.eq(ev(x), xs, 256), "bv:x'=RFC9380-F.2-steps-1..26")
            ctx.check(tm.eq(ev(y), ys, 256), "bv:y'=RFC9380-F.2-steps-1..26")
            ctx.check(tm.eq(ev(uo), u, 256), 'bv:u-unchanged')
            # package constants must not have been written (the code computes in place on temporaries only)
            for g, want in (('feZ', Z_RFC), ('feA', A_ISO), ('feB', B_ISO)):
                ctx.check(tm.eq(ev(m.load(m.global_ptr(SWU + g))), want, 256), 'bv:%s-unchanged-and-equal-to-RFC-value' % g)
        paths = sub.explore('swu/MapToCurveSimpleSWU', h, mode='bv')
        sub.add('swu/witness-single-path', [], len(paths) == 1 and paths[0].outcome == 'ok')

    def t_iso(sub):
        def h(ctx):
            m, ev = fm(ctx)
            xl, yl = sym_limbs('xp'), sym_limbs('yp')
            xp, yp = tm.lift(cat_limbs(xl), 256), tm.lift(cat_limbs(yl), 256)
            ctx.assume(tm.ult(xp, P, 256))
            ctx.assume(tm.ult(yp, P, 256))
            xo = X.Ptr(m.new_obj(None, tree=[[], list(xl)], label='xp'), ())
            yo = X.Ptr(m.new_obj(None, tree=[[], list(yl)], label='yp'), ())
            x, y, flag = m.call(SWU + 'IsoMap', [xo, yo])
            sub.note_machine(m)
            xs, ys, ok = iso_spec(xp, yp)
            ctx.check(tm.eq(flag, tm.ite(ok, 1, 0, 64), 64), 'bv:flag=both-denominators-nonzero')
            ctx.check(tm.eq(ev(x), xs, 256), 'bv:x=x_num/x_den')
            ctx.check(tm.eq(ev(y), ys, 256), "bv:y=y'*y_num/y_den")
            for (i, j), want in K.items():
                ctx.check(tm.eq(ev(m.load(m.global_ptr(SWU + 'feK%d%d' % (i, j)))), want, 256), 'bv:k_(%d,%d)' % (i, j))
        sub.explore('iso/IsoMap', h, mode='bv')

    def t_iso_ground(sub):
        # the isogeny constants as a whole: the rational map sends points of E': y^2 = x^3 + A'x + B' to points of E
        def h(ctx):
            bad = []
            n = 0
            xq = 2
            while n < 24:
                rhs = (xq ** 3 + A_ISO * xq + B_ISO) % P
                if pow(rhs, (P - 1) // 2, P) == 1:
                    yq = pow(rhs, (P + 1) // 4, P)
                    xx, xxx = xq * xq % P, xq ** 3 % P
                    xn = (K[(1, 3)] * xxx + K[(1, 2)] * xx + K[(1, 1)] * xq + K[(1, 0)]) % P
                    xd = (xx + K[(2, 1)] * xq + K[(2, 0)]) % P
                    yn = (K[(3, 3)] * xxx + K[(3, 2)] * xx + K[(3, 1)] * xq + K[(3, 0)]) % P
                    yd = (xxx + K[(4, 2)] * xx + K[(4, 1)] * xq + K[(4, 0)]) % P
                    X_, Y_ = xn * pow(xd, -1, P) % P, yq * yn * pow(yd, -1, P) % P
                    if (Y_ * Y_ - X_ ** 3 - 7) % P != 0:
                        bad.append(xq)
                    n += 1
                xq += 1
            ctx.check(not bad, "iso_map sends E' into E at 24 points (degree <= 12 identity)")
            ctx.check(pow(Z_RFC, (P - 1) // 2, P) == P - 1, 'Z=-11 is a non-square')
        sub.explore('const/isogeny', h)
    if not only or 'swu' in only:
        tasks += [('swu', t_swu), ('iso', t_iso), ('iso-ground', t_iso_ground)]
        chk.bounds.append('MapToCurveSimpleSWU / IsoMap: every u resp. (x\',y\') in F_p; the exceptional arm (tv2 = 0: u = 0, u^2 = 1/11), the sgn0 rule and the zero-denominator flag are branches of the same symbolic run')
        chk.assumptions.append("RFC 9380's straight-line procedures (F.2, F.2.1.2, E.1) compute the abstract map (trusted)")

    # ------------------------------------------------------------------ 3. SetUniformBytes and the suite drivers (structure)
    def t_uniform(L):
        def task(sub):
            def h(ctx):
                m, ev = fm(ctx)
                marks = {}

                def c_wide(m, a):
                    el = m.slice_elems(a[1])
                    marks['wide'] = el
                    v = tm.uf('os2ip_mod_p_len%d' % len(el), [tm.lift(cat_bytes(el), 8 * len(el))], 256)
                    if not (32 <= len(el) <= 64):
                        raise X.GoPanic("wide element length")
                    m.store(X.Ptr(a[0].obj, a[0].path + (1,)), models.split_limbs(v))
                    return a[0]
                m.contracts[FE + 'SetWideBytes'] = c_wide
                B = sym_bytes('B', L)
                v = c06.new_point(m, 'recv')
                try:
                    r = m.call(PT + 'SetUniformBytes', [X.Ptr(v, ()), m.new_byte_slice(B, 'src')])
                except X.GoPanic:
                    ctx.check(L < 32 or L > 64, 'panics-only-outside-32..64')
                    return 'panic'
                sub.note_machine(m)
                ctx.check(32 <= L <= 64, 'must-panic-outside-32..64')
                u = tm.uf('os2ip_mod_p_len%d' % L, [tm.lift(cat_bytes(B), 8 * L)], 256)
                xs, ys = swu_spec(u)
                x, y, ok = iso_spec(xs, ys)
                st = c06.pt_state(v)
                ctx.check(tm.eq(st[3], True, 0), 'result-valid')
                want = (tm.ite(ok, x, 0, 256), tm.ite(ok, y, 1, 256), tm.ite(ok, 1, 0, 256))
                ctx.check(tm.band_all([tm.eq(st[i], want[i], 256) for i in range(3)]), 'bv:(x,y,1)=iso_map(swu(OS2IP(src) mod p))-or-identity-on-zero-denominator')
                return 'ok'
            sub.explore('uniform/SetUniformBytes@len%d' % L, h, mode='bv', allow_panic=None)
        return task
    if not only or 'uniform' in only:
        for L in (range(30, 67) if chk.thorough else (31, 32, 33, 48, 64, 65)):
            tasks.append(('uniform', t_uniform(L)))
        chk.summaries['(*field.Element).SetWideBytes'] = 'OS2IP(src) mod p for 32..64 bytes: discharged by C01 field/wide/*'

    def t_suite(fn, dstlen, msglen):
        def task(sub):
            def h(ctx):
                stubs.NARROW['on'] = False
                m = new_machine(prog, ctx, gl, value_model=True)
                install_hash_new(m)
                m.unwind = 300
                calls = []
                m.abstract_types[MOD + '.Point'] = lambda: X.Abs('pt', 'invalid')

                def c_sub(m, a):
                    el = m.slice_elems(a[1])
                    calls.append(el)
                    m.store(a[0], X.Abs('pt', ('map', tuple(el))))
                    return a[0]
                m.contracts[PT + 'SetUniformBytes'] = c_sub
                m.contracts[ROOT + 'NewIdentityPoint'] = lambda m, a: X.Ptr(m.new_obj(None, tree=X.Abs('pt', 'identity'), label='Point'), ())

                def c_add(m, a):
                    m.store(a[0], X.Abs('pt', ('add', m.load(a[1]).v, m.load(a[2]).v)))
                    return a[0]
                m.contracts[PT + 'Add'] = c_add
                dst, msg = sym_bytes('dst', dstlen), sym_bytes('msg', msglen)
                dst_s = m.new_byte_slice(dst, 'dst') if dstlen else X.NILSLICE
                r, err = m.call(H2C + fn, [dst_s, m.new_byte_slice(msg, 'msg') if msglen else X.NILSLICE])
                if dstlen:
                    ctx.check(tm.eq(cat_bytes(m.slice_elems(dst_s)), cat_bytes(dst), 8 * dstlen), "bv:caller's-DST-buffer-unchanged")
                sub.note_machine(m)
                n = 96 if fn.endswith('RO') else 48
                spec = xmd_spec(msg, dst, n)
                if err is not None:
                    ctx.check(spec == 'err' and (r is None or r.is_nil()), 'error-only-for-empty-DST-and-no-point')
                    return 'err'
                ctx.check(spec != 'err', 'empty-DST-must-fail')
                if spec == 'err':
                    return 'bad'
                val = m.load(r).v
                if fn.endswith('RO'):
                    ok = (isinstance(val, tuple) and val[0] == 'add' and len(calls) == 2 and val[1] == ('map', tuple(calls[0])) and val[2] == ('map', tuple(calls[1])))
                    ctx.check(ok, 'R=map_to_curve(u0)+map_to_curve(u1)')
                    if ok:
                        ctx.check(tm.eq(cat_bytes(calls[0] + calls[1]), cat_bytes(spec), 8 * 96), 'bv:u0||u1=expand_message_xmd(msg,DST,96)[0:48]||[48:96]')
                else:
                    ok = len(calls) == 1 and val == ('map', tuple(calls[0]))
                    ctx.check(ok, 'Q=map_to_curve(u)')
                    if ok:
                        ctx.check(tm.eq(cat_bytes(calls[0]), cat_bytes(spec), 8 * 48), 'bv:u=expand_message_xmd(msg,DST,48)')
                return 'ok'
            sub.explore('suite/%s@dst%d@msg%d' % (fn, dstlen, msglen), h, mode='bv')
        return task
    if not only or 'suite' in only:
        for fn in ('Secp256k1_XMD_SHA256_SSWU_RO', 'Secp256k1_XMD_SHA256_SSWU_NU'):
            for d, ml in ((0, 3), (1, 0), (16, 3), (255, 5), (256, 5), (300, 64)):
                tasks.append(('suite', t_suite(fn, d, ml)))
        chk.summaries['SetUniformBytes / Point.Add (inside the suite drivers)'] = 'opaque map_to_curve / group addition: discharged by uniform/*, swu/*, iso/* and C03'

    from .common import include_ring_dependency
    if not only or 'dep' in only:
        include_ring_dependency(chk, tasks, 'C01', 'field', ['field_extras'],
                                'hash_to_field is Element.SetWideBytes (OS2IP mod p) and the SWU map uses Element.SqrtRatio; the value-model layer of this check uses their '
                                'contracts, the real code of both is re-decided here at full width')
    chk.run_tasks(tasks)
    chk.discharge()
    chk.finish()


if __name__ == '__main__':
    from .common import run_main
    run_main(main)
