"""C18 No invalid objects via the API; aliasing and caller mutation are harmless.

One inductive step from an arbitrary valid state, not histories:
  * zero-value Point operands make every exported Point operation panic before the receiver is touched (real code);
  * failed decodes / constructors leave the receiver bit-identical and return no object (real code, all inputs);
  * key objects are separated from caller memory: nothing reachable from a key is reachable from the arguments it was
    built from or from any value an accessor hands out (object-level check in the memory model), so later mutation by
    the caller cannot change a key's behaviour;
  * validity invariants are preserved by every operation (points valid, scalars canonical).
Receiver/argument aliasing of the arithmetic is decided in C01-C04 and C16 (every alias partition) and referenced here."""
import os
from .common import Check, load_prog, load_globals, new_machine, tm, X, MOD, N_ORDER, P_FIELD, sym_limbs, sym_bytes, cat_limbs, cat_bytes
from . import models, stubs, toy as T, c06
from .c20 import reachable, Monitor

ROOT = MOD + '.'
SECEC = MOD + '/secec.'
BTC = MOD + '/secec/bitcoin.'
PT = '(*' + MOD + '.Point).'
SC = '(*' + MOD + '.Scalar).'
W = T.W
POINT_T = MOD + '.Point'


def main():
    chk = Check('C18')
    prog = load_prog()
    gl = load_globals(prog)
    only = os.environ.get('VERIF_ONLY', '')
    chk.summaries.update(models.VALUE_MODEL_SUMMARY)
    chk.summaries.update(c06.SUMMARY)
    chk.summaries.update(T.CONTRACT_SUMMARY)
    tasks = []
    P = prog

    def fmachine(ctx):
        m = new_machine(prog, ctx, gl, value_model=True)
        c06.install_field_contracts(m)
        stubs.install_hash_stubs(m)
        return m

    # ------------------------------------------------------------------ 1. zero-value Point operands: every exported method, generated from the type
    point_methods = sorted(P.methods.get('*' + POINT_T, {}).items())
    ptid = P.tid_by_str['*' + POINT_T]
    covered = []

    def t_zero(sub):
        for mname, fname in point_methods:
            if not mname[0].isupper():
                continue
            f = P.funcs.get(fname)
            if f is None or 'blocks' not in f:
                continue
            params = f['params']
            pidx = [i for i, p in enumerate(params) if i > 0 and p['t'] == ptid]
            slice_pts = [i for i, p in enumerate(params) if P.types[p['t']]['k'] == 'slice' and P.types[P.types[p['t']]['elem']]['s'] == '*' + POINT_T]
            recv_is_operand = mname in ('Equal', 'IsIdentity', 'IsYOdd', 'UncompressedBytes', 'CompressedBytes', 'XBytes')
            cases = [('arg%d' % i, i) for i in pidx] + ([('receiver', 0)] if recv_is_operand else []) + [('list-entry', i) for i in slice_pts]
            if not cases:
                continue
            covered.append(mname)
            for cname, bad in cases:
                def h(ctx, f=f, params=params, bad=bad, mname=mname, fname=fname):
                    m = fmachine(ctx)
                    recv_pre = None
                    args = []
                    for i, p in enumerate(params):
                        t = P.types[p['t']]
                        if p['t'] == ptid:
                            if i == bad:
                                args.append(X.Ptr(m.new_obj(P.tid_by_str[POINT_T], label='zero Point'), ()))
                            else:
                                o = c06.new_point(m, 'p%d' % i, valid=True)
                                args.append(X.Ptr(o, ()))
                        elif t['s'] == '*' + MOD + '.Scalar':
                            # the multiplications get a fixed scalar here: the validity check of the point operands does not
                            # depend on it, and a symbolic scalar would drive the variable-time table code through 2^32 paths
                            v = 0x3c5a7e1f00ff00ff123456789abcdef0fedcba98765432100f1e2d3c4b5a6978 + i
                            args.append(X.Ptr(m.new_obj(None, tree=[[], [(v >> (64 * k)) & (2 ** 64 - 1) for k in range(4)]], label='scalar'), ()))
                        elif t['k'] == 'slice' and P.types[t['elem']]['s'] == '*' + POINT_T:
                            pts = [X.Ptr(c06.new_point(m, 'lp0', valid=True), ()), X.Ptr(m.new_obj(P.tid_by_str[POINT_T], label='zero Point'), ())]
                            o = m.new_obj(None, tree=pts, label='points')
                            args.append(X.Slice(o, (), 0, 2, 2))
                        elif t['k'] == 'slice' and P.types[t['elem']]['s'] == '*' + MOD + '.Scalar':
                            sc = []
                            for j in range(2):
                                v = 0x5a5a7e1f00ff00ff123456789abcdef0fedcba98765432100f1e2d3c4b5a6978 + j
                                sc.append(X.Ptr(m.new_obj(None, tree=[[], [(v >> (64 * k)) & (2 ** 64 - 1) for k in range(4)]], label='scalar'), ()))
                            o = m.new_obj(None, tree=sc, label='scalars')
                            args.append(X.Slice(o, (), 0, 2, 2))
                        elif t['k'] == 'slice':
                            args.append(m.new_byte_slice(sym_bytes('b%d' % i, 33), 'bytes'))
                        elif t.get('int') or P.under(p['t']).get('int'):
                            args.append(tm.var('u%d' % i, P.under(p['t'])['bits']))
                        else:
                            raise X.Unsupported("parameter type %s of %s" % (t['s'], fname))
                    recv = args[0]
                    pre = c06.pt_state(recv.obj) if bad != 0 else None
                    m.unwind = 4
                    try:
                        m.call(fname, args)
                    except X.GoPanic:
                        if pre is not None:
                            ctx.check(c06.same_state(c06.pt_state(recv.obj), pre), 'bv:receiver-untouched-before-the-panic')
                        return 'panic'
                    ctx.check(False, 'uninitialised-Point-operand-must-panic')
                    return 'no-panic'
                sub.explore('zero/Point.%s[%s]' % (mname, cname), h, mode='bv', allow_panic=lambda p: True, unwind_ok=True)
    if not only or 'zero' in only:
        tasks.append(('zero', t_zero))

    # ------------------------------------------------------------------ 2. failed decodes leave the receiver unchanged (real code)
    def t_decode(sub):
        for L in (0, 1, 32, 33, 64, 65, 66):
            for fn in ('SetBytes', 'SetCompressedBytes', 'SetUncompressedBytes'):
                def h(ctx, L=L, fn=fn):
                    m = fmachine(ctx)
                    B = sym_bytes('B', L)
                    recv = c06.new_point(m, 'recv')
                    pre = c06.pt_state(recv)
                    src = m.new_byte_slice(B, 'src')
                    r, err = m.call(PT + fn, [X.Ptr(recv, ()), src])
                    sub.note_machine(m)
                    ctx.check(tm.eq(cat_bytes(m.slice_elems(src)), cat_bytes(B), 8 * L) if L else True, 'bv:source-bytes-unchanged')
                    if err is not None:
                        ctx.check(r.is_nil(), 'no-object-on-error')
                        ctx.check(c06.same_state(c06.pt_state(recv), pre), 'bv:receiver-unchanged-on-error')
                        return 'err'
                    ctx.check(tm.eq(c06.pt_state(recv)[3], True, 0), 'decoded-point-flagged-valid')
                    ctx.check(recv.tree[1] is not None and src.obj.id not in reachable(X.Ptr(recv, ())), 'point-does-not-alias-the-source-bytes')
                    return 'ok'
                sub.explore('decode/Point.%s@len%d' % (fn, L), h, mode='bv')
        for M, mod, which in ((SC, N_ORDER, 'Scalar'), ('(*' + MOD + '/internal/field.Element).', P_FIELD, 'Element')):
            def h(ctx, M=M, mod=mod):
                m = new_machine(prog, ctx, gl, value_model=True)
                models.install_value_model(m, mul='uf')
                bs = sym_bytes('s', 32)
                src = m.new_obj(None, tree=list(bs), label='src')
                pre = sym_limbs('pre')
                ctx.assume(tm.ult(tm.lift(cat_limbs(pre), 256), mod, 256))
                recv = m.new_obj(None, tree=[[], list(pre)], label='recv')
                r, err = m.call(M + 'SetCanonicalBytes', [X.Ptr(recv, ()), X.Ptr(src, ())])
                sub.note_machine(m)
                now = tm.lift(cat_limbs(list(recv.tree[1])), 256)
                ctx.check(tm.ult(now, mod, 256), 'bv:receiver-canonical-afterwards')
                if err is not None:
                    ctx.check(r.is_nil(), 'no-object-on-error')
                    ctx.check(tm.eq(now, tm.lift(cat_limbs(pre), 256), 256), 'bv:receiver-unchanged-on-error')
                    return 'err'
                return 'ok'
            paths = sub.explore('decode/%s.SetCanonicalBytes' % which, h, mode='bv')
            sub.add('decode/%s.SetCanonicalBytes/witness' % which, [], {p.value for p in paths} == {'ok', 'err'})
    if not only or 'decode' in only:
        tasks.append(('decode', t_decode))

    # ------------------------------------------------------------------ 3. key objects: separation from caller memory, copies in and out
    def t_keys(sub):
        toy = T.get_toy(43, 31)

        def pm(ctx):
            stubs.NARROW['on'] = True
            m = new_machine(prog, ctx, gl, value_model=True)
            stubs.install_hash_stubs(m)
            stubs.install_crypto_hash(m)
            T.install(m, toy)
            return m

        def disjoint(ctx, a, b, what):
            ra, rb = reachable(a), reachable(b)
            sh = [ra[i].label for i in ra if i in rb and not ra[i].is_global]
            ctx.check(not sh, '%s%s' % (what, '' if not sh else ': shares %s' % sh[:3]))
        SKM = '(*' + MOD + '/secec.PrivateKey).'
        PKM = '(*' + MOD + '/secec.PublicKey).'
        SSK = '(*' + MOD + '/secec/bitcoin.SchnorrPrivateKey).'
        SPK = '(*' + MOD + '/secec/bitcoin.SchnorrPublicKey).'

        def h(ctx):
            m = pm(ctx)
            d, q = tm.var('d', W), tm.var('q', W)
            for v in (d, q):
                ctx.assume(tm.band(tm.bnot(tm.eq(v, 0, W)), tm.ult(v, toy.n, W)))
            # --- constructors copy their inputs
            kb = m.new_byte_slice(T.be32(d), 'caller-key-bytes')
            sk, err = m.call(SECEC + 'NewPrivateKey', [kb])
            disjoint(ctx, sk, kb, 'NewPrivateKey-copies-the-key-bytes')
            s_in = T.new_scalar(m, d)
            sk2, err = m.call(SECEC + 'NewPrivateKeyFromScalar', [s_in])
            disjoint(ctx, sk2, s_in, 'NewPrivateKeyFromScalar-copies-the-scalar')
            pb = m.new_byte_slice([4] + T.be32(toy.X(q)) + T.be32(toy.Y(q)), 'caller-pub-bytes')
            pk, err = m.call(SECEC + 'NewPublicKey', [pb])
            disjoint(ctx, pk, pb, 'NewPublicKey-copies-the-bytes')
            pt_in = m.toy_newpt(q)
            pk2, err = m.call(SECEC + 'NewPublicKeyFromPoint', [pt_in])
            disjoint(ctx, pk2, pt_in, 'NewPublicKeyFromPoint-copies-the-point')
            # --- accessors hand out copies (two calls never return the same memory either)
            for name, recv, call in (('PrivateKey.Bytes', sk, SKM + 'Bytes'), ('PrivateKey.Scalar', sk, SKM + 'Scalar'),
                                     ('PublicKey.Bytes', pk, PKM + 'Bytes'), ('PublicKey.CompressedBytes', pk, PKM + 'CompressedBytes'),
                                     ('PublicKey.Point', pk, PKM + 'Point')):
                o1 = m.call(call, [recv])
                o2 = m.call(call, [recv])
                disjoint(ctx, recv, o1, name + '-returns-a-copy')
                disjoint(ctx, o1, o2, name + '-returns-fresh-memory-each-time')
            # the public key object inside a private key is shared by design (immutable): it must still be separated from inputs
            disjoint(ctx, T.fld(m, sk, T.PRIV_T, 'publicKey'), kb, 'derived-public-key-separated-from-caller-bytes')
            # --- Schnorr
            ssk = m.call(BTC + 'NewSchnorrPrivateKeyFromECDSA', [sk])
            disjoint(ctx, ssk, sk, 'SchnorrPrivateKey-does-not-share-memory-with-the-ECDSA-key')
            xb = m.new_byte_slice(T.be32(toy.X(q)), 'caller-x-bytes')
            spk, err = m.call(BTC + 'NewSchnorrPublicKey', [xb])
            if err is None:
                disjoint(ctx, spk, xb, 'NewSchnorrPublicKey-copies-the-bytes')
                for name, call in (('SchnorrPublicKey.Bytes', SPK + 'Bytes'), ('SchnorrPublicKey.Point', SPK + 'Point')):
                    o1 = m.call(call, [spk])
                    disjoint(ctx, spk, o1, name + '-returns-a-copy')
            spk2, err = m.call(BTC + 'NewSchnorrPublicKeyFromPoint', [pt_in])
            disjoint(ctx, spk2, pt_in, 'NewSchnorrPublicKeyFromPoint-copies-the-point')
            spk3 = m.call(BTC + 'NewSchnorrPublicKeyFromECDSA', [pk])
            disjoint(ctx, spk3, pk, 'NewSchnorrPublicKeyFromECDSA-copies')
            for name, call in (('SchnorrPrivateKey.Bytes', SSK + 'Bytes'), ('SchnorrPrivateKey.Scalar', SSK + 'Scalar')):
                o1 = m.call(call, [ssk])
                disjoint(ctx, ssk, o1, name + '-returns-a-copy')
            sub.note_machine(m)
            return 'ok'
        paths = sub.explore('keys/separation', h, mode='bv')
        sub.add('keys/separation/witness', [], any(p.outcome == 'ok' for p in paths))

        # failing constructors return no object
        for L in (0, 31, 33):
            def hb(ctx, L=L):
                m = pm(ctx)
                k, err = m.call(SECEC + 'NewPrivateKey', [m.new_byte_slice(sym_bytes('k', L), 'k')])
                ctx.check(err is not None and k.is_nil(), 'wrong-length-private-key-yields-no-object')
                k, err = m.call(SECEC + 'NewPublicKey', [m.new_byte_slice(sym_bytes('k', L + 1 if L == 33 else L), 'k')])
                ctx.check(err is not None and k.is_nil(), 'wrong-length-public-key-yields-no-object')
            sub.explore('keys/failing-constructors@len%d' % L, hb, mode='bv')

        def hi(ctx):
            m = pm(ctx)
            k, err = m.call(SECEC + 'NewPublicKeyFromPoint', [m.toy_newpt(0)])
            ctx.check(err is not None and k.is_nil(), 'identity-is-not-a-public-key')
            z = m.call(SECEC + 'NewPrivateKeyFromScalar', [T.new_scalar(m, 0)])
            ctx.check(z[1] is not None and z[0].is_nil(), 'zero-is-not-a-private-key')
            try:
                m.call(SECEC + 'NewPublicKeyFromPoint', [X.Ptr(m.new_obj(None, tree=X.Abs('pt', T.INVALID), label='zero Point'), ())])
                ctx.check(False, 'uninitialised-point-must-panic')
            except X.GoPanic:
                pass
        sub.explore('keys/invalid-inputs', hi, mode='bv')
    if not only or 'keys' in only:
        tasks.append(('keys', t_keys))

    # ------------------------------------------------------------------ 4. API inventory (so that a new exported method is not silently uncovered)
    def t_inventory(sub):
        exported = {}
        for tname in ('*' + POINT_T, '*' + MOD + '.Scalar', '*' + MOD + '/secec.PrivateKey', '*' + MOD + '/secec.PublicKey',
                      '*' + MOD + '/secec/bitcoin.SchnorrPrivateKey', '*' + MOD + '/secec/bitcoin.SchnorrPublicKey'):
            exported[tname] = sorted(n for n in P.methods.get(tname, {}) if n[0].isupper())
        known_point = {'Add', 'CompressedBytes', 'ConditionalNegate', 'ConditionalSelect', 'Double', 'DoubleScalarMultBasepointVartime', 'Equal', 'Generator',
                       'Identity', 'IsIdentity', 'IsYOdd', 'MultiScalarMult', 'MultiScalarMultVartime', 'Negate', 'ScalarBaseMult', 'ScalarMult', 'Set',
                       'SetBytes', 'SetCompressedBytes', 'SetUncompressedBytes', 'SetUniformBytes', 'Subtract', 'UncompressedBytes', 'XBytes'}
        new = sorted(set(exported['*' + POINT_T]) - known_point)
        sub.notes.append('exported API inventory: %s' % {k.split('.')[-1]: len(v) for k, v in exported.items()})
        if new:
            sub.notes.append('exported Point methods without a dedicated C18 harness (covered only by the generated zero-operand harness): %s' % new)
        sub.samples.append({'exported_methods': exported})
        sub.add('inventory/exported-methods-enumerated', [], len(exported['*' + POINT_T]) >= 20)
    tasks.append(('inventory', t_inventory))

    chk.bounds.append('zero-value operands: every exported *Point method with a Point operand (generated from go/types), each operand position, list entries; '
                      'failed decodes: Point.Set*Bytes for lengths {0,1,32,33,64,65,66}, Scalar/Element.SetCanonicalBytes for all 32-byte strings; '
                      'key separation: all constructors and accessors of secec / secec/bitcoin keys (toy curve (43,31), all keys)')
    chk.notes.append('receiver/argument aliasing with identical results: C01, C02 (methods, every alias partition), C03 (formulas and group law), C04/C16 (multiplications); '
                     'closure of the validity invariants: C01/C02 kernel range obligations, C03 result-flagged-valid / result-on-curve')
    chk.outside.append('histories longer than one step are covered by induction on the invariants, not enumerated')
    # closure of "every Scalar is canonical / every Point is on the curve" under the operations that take a caller-chosen control word: the
    # exported ConditionalSelect / ConditionalNegate of Point and Scalar forward it to the limb-level selects, which must treat EVERY non-zero
    # word alike (anything else mixes the operands limb by limb into an invalid object).  The C01 / C02 method obligations for them are
    # re-decided here.
    from .common import include_ring_dependency
    if not os.environ.get('VERIF_ONLY') or 'dep' in os.environ.get('VERIF_ONLY', ''):
        why = 'conditional operations with an arbitrary control word return one of the operands (a valid object), for every value of the word'
        include_ring_dependency(chk, tasks, 'C01', 'field', [('methods', r'Conditional')], why)
        include_ring_dependency(chk, tasks, 'C02', 'scalar', [('methods', r'Conditional')], why)
    chk.run_tasks(tasks)
    chk.discharge()
    chk.finish()


if __name__ == '__main__':
    from .common import run_main
    run_main(main)
