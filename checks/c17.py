"""C17 Secret-handling operations run a secret-independent control and lookup pattern.

Secrets are symbolic variables carrying a taint label that propagates through the term DAG.  The executor reports
every conditional branch, array/slice index and slice bound whose term depends on a secret.  A dependency only
counts when it is *semantic*: both outcomes (two different index values) must be satisfiable under the path
condition, which includes the validity invariants of the secret (scalar in [1,n), canonical limbs) -- this is the
two-copy query.  A constant-time routine therefore runs as ONE path covering all secret values, and the list of
functions entered is exact, which decides "never calls a ...Vartime routine"."""
import os
import re
from .common import Check, load_prog, load_globals, new_machine, tm, X, MOD, N_ORDER, P_FIELD, sym_limbs, sym_bytes, cat_limbs, cat_bytes, REPO, point_tree, point_get
from . import models, stubs, c06
from engine import asmx86

ROOT = MOD + '.'
SECEC = MOD + '/secec.'
BTC = MOD + '/secec/bitcoin.'
PT = '(*' + MOD + '.Point).'
SC = '(*' + MOD + '.Scalar).'
FE = '(*' + MOD + '/internal/field.Element).'
SECRET = 1

_src_cache = {}


def source_line(pos):
    if not pos:
        return ''
    f, ln = pos.rsplit(':', 1)
    if f not in _src_cache:
        _src_cache[f] = {}
        for root, _, files in os.walk(REPO):
            if f in files and '/.git' not in root:
                try:
                    _src_cache[f] = dict(enumerate(open(os.path.join(root, f)).read().split('\n'), 1))
                except OSError:
                    pass
                break
    return _src_cache[f].get(int(ln), '').strip()


# declassifications: decisions on a secret-derived value that the protocol itself publishes or discards.  A decision is identified
# semantically, not by its source text: (function, the calls whose results the branch condition is computed from in the SSA).  Any other
# branch on a secret is a violation.
DECLASS_RULES = [
    ('secec.sampleRandomScalar', ('Scalar).SetBytes', 'Scalar).IsZero'),
     'rejection test on a nonce CANDIDATE: rejected candidates are discarded, never used (probability < 2^-127)'),
    ('secec.sign', ('Scalar).IsZero',), 'zero tests in sign() are on r and s, the published signature components (retry when r = 0 or s = 0)'),
    ('bitcoin.signSchnorr', ('Scalar).IsZero',), "BIP-340 mandates failing when k' = 0 (probability 2^-256)"),
]
_PURE_OPS = ('BinOp', 'Convert', 'ChangeType', 'Extract', 'Phi')


def cond_origins(prog, fname, block):
    """names of the calls (and other non-pure sources) the condition of the If ending `block` of `fname` is computed from"""
    f = prog.funcs.get(fname)
    if f is None:
        return {'?'}
    defs = {}
    for b in f['blocks']:
        for I in b['instrs']:
            if 'n' in I:
                defs[I['n']] = I
    iff = [I for I in f['blocks'][block]['instrs'] if I['op'] == 'If']
    if not iff:
        return {'?'}
    out, seen, todo = set(), set(), [iff[-1]['x']]
    while todo:
        v = todo.pop()
        if not isinstance(v, dict) or v.get('k') != 'v':
            if isinstance(v, dict) and v.get('k') == 'g':
                out.add('global')
            continue
        if v['n'] in seen:
            continue
        seen.add(v['n'])
        I = defs.get(v['n'])
        if I is None:
            out.add('param:' + v['n'])
        elif I['op'] == 'Call':
            fn = I['call'].get('fn') or {}
            out.add(fn.get('n') or ('invoke:' + str(I['call'].get('method'))))
        elif I['op'] in _PURE_OPS or (I['op'] == 'UnOp' and I.get('tok') != '*'):
            todo.extend([I.get('x'), I.get('y')] + list(I.get('edges') or []))
        else:
            out.add(I['op'])
    return out


def declassified(prog, fname, block):
    org = cond_origins(prog, fname, block)
    for suf, allowed, why in DECLASS_RULES:
        if fname.endswith(suf) and org and (allowed is None or all(any(o.endswith(a) for a in allowed) for o in org)):
            return (suf, ','.join(sorted(o.rsplit('.', 1)[-1] for o in org)), why)
    return None


def tainted(v):
    return isinstance(v, tm.T) and v.taint & SECRET


LEAK_LIMIT = 6


class Leaks:
    def __init__(self):
        self.items = []
        self.declass = []


def instrument(m, ctx, leaks):
    """wrap the executor's branching/indexing so that secret-dependent decisions are reported"""
    orig_branch = ctx.branch

    def branch(cond, site=None):
        if tainted(cond):
            ps = ctx.ex.psolver
            both = ps.check(ctx.pc + [cond]) != 'unsat' and ps.check(ctx.pc + [tm.bnot(cond)]) != 'unsat'
            if both:
                fn = site[0] if site else '?'
                pos = m.cur_pos
                line = source_line(pos)
                key = declassified(m.prog, fn, site[1]) if site else None
                if key:
                    leaks.declass.append(key)
                else:
                    leaks.items.append(('branch', fn, pos, line))
                    if len(leaks.items) >= LEAK_LIMIT:
                        # secret-dependent control flow is established several times over: the harness's verdict cannot change any more,
                        # and following variable-time code with a symbolic secret (loops whose trip count is the secret) is unbounded work
                        raise X.StopExploration('%d secret-dependent sites recorded' % len(leaks.items))
                    # the violation is established; follow one side only (no forking over secret values)
                    ctx.decisions.append(True)
                    ctx.pc.append(cond)
                    return True
        return orig_branch(cond, site)
    ctx.branch = branch
    m.index_log = IndexLog(m, ctx, leaks)


class IndexLog(list):
    def __init__(self, m, ctx, leaks):
        list.__init__(self)
        self.m, self.ctx, self.leaks = m, ctx, leaks

    def append(self, item):
        pos, idx = item
        if tainted(idx):
            try:
                many = len(self.ctx.ex.psolver.enumerate(self.ctx.pc, idx, limit=2)) > 1
            except X.Unsupported:    # more values than the limit (or solver gave up): the index is not determined by public data
                many = True
            if many:
                self.leaks.items.append(('index', self.m.cur_fn, pos, source_line(pos)))
                if len(self.leaks.items) >= LEAK_LIMIT:
                    raise X.StopExploration('%d secret-dependent sites recorded' % len(self.leaks.items))


def main():
    chk = Check('C17')
    prog = load_prog()                    # purego build: the portable lookups are executed
    gl = load_globals(prog)
    only = os.environ.get('VERIF_ONLY', '')
    chk.summaries.update(models.VALUE_MODEL_SUMMARY)
    chk.summaries['fiat.Mul/Square'] = 'opaque function of the operands (taint propagates); the kernels themselves are checked branch-free below (kernel/*)'
    tasks = []

    def base_machine(ctx, leaks, range_axioms=False):
        m = new_machine(prog, ctx, gl, value_model=True)
        models.install_value_model(m, mul='uf', check_pre=False, range_axioms=range_axioms)
        stubs.install_hash_stubs(m)
        stubs.install_crypto_hash(m)
        m.cur_pos = None
        m.cur_fn = None
        instrument(m, ctx, leaks)
        return m

    def secret_limbs(name):
        return [tm.var('%s_%d' % (name, i), 64, SECRET) for i in range(4)]

    def finish(sub, label, leaks, m, forbid_vartime=True, paths=None):
        vt = sorted(f for f in m.called if 'Vartime' in f or 'vartime' in f) if forbid_vartime else []
        sub.add('%s/no-secret-dependent-branch-or-index' % label, [], not leaks.items, meta={'leaks': leaks.items[:8]})
        sub.add('%s/no-variable-time-routine-entered' % label, [], not vt, meta={'vartime_callees': vt})
        if leaks.declass:
            sub.notes.append('%s: declassified: %s' % (label, sorted({(k[0], k[1], k[2]) for k in leaks.declass})))
        sub.samples.append({'entry': label, 'functions_entered': len(m.called), 'instructions': m.instr_count,
                            'secret_dependent_sites': leaks.items[:4], 'declassified': [list(k[:2]) for k in set(leaks.declass)]})

    # ------------------------------------------------------------------ 0. kernels and helpers: real code, secret operands
    def t_kernels(sub):
        for pkg, mod in ((models.FIELD, P_FIELD), (models.SCALAR, N_ORDER)):
            for fn, nargs in (('Mul', 2), ('Square', 1), ('Add', 2), ('Sub', 2), ('Opp', 1), ('ToMontgomery', 1), ('FromMontgomery', 1), ('Selectznz', -1), ('Nonzero', -2)):
                leaks = Leaks()
                holder = {}

                def h(ctx, pkg=pkg, fn=fn, nargs=nargs, leaks=leaks, holder=holder):
                    m = new_machine(prog, ctx, gl)
                    m.cur_pos = m.cur_fn = None
                    instrument(m, ctx, leaks)
                    holder['m'] = m
                    a, b = secret_limbs('a'), secret_limbs('b')
                    oa, ob = m.new_obj(None, tree=list(a)), m.new_obj(None, tree=list(b))
                    out = m.new_obj(None, tree=[0] * 4)
                    if nargs == -1:
                        m.call(pkg + fn, [X.Ptr(out, ()), tm.zext(tm.var('c', 1, SECRET), 64), X.Ptr(oa, ()), X.Ptr(ob, ())])
                    elif nargs == -2:
                        o1 = m.new_obj(None, tree=[0])
                        m.call(pkg + fn, [X.Ptr(o1, (0,)), X.Ptr(oa, ())])
                    elif nargs == 2:
                        m.call(pkg + fn, [X.Ptr(out, ()), X.Ptr(oa, ()), X.Ptr(ob, ())])
                    else:
                        m.call(pkg + fn, [X.Ptr(out, ()), X.Ptr(oa, ())])
                    sub.note_machine(m)
                lbl = 'kernel/%s%s' % ('field.' if pkg == models.FIELD else 'scalar.', fn)
                paths = sub.explore(lbl, h)
                sub.add(lbl + '/single-path', [], len(paths) == 1 and paths[0].outcome == 'ok')
                finish(sub, lbl, leaks, holder['m'])
    if not only or 'kernel' in only:
        tasks.append(('kernels', t_kernels))

    # ------------------------------------------------------------------ 1. ring methods with secret operands
    def t_methods(sub):
        for which, M, mod in (('field', FE, P_FIELD), ('scalar', SC, N_ORDER)):
            specs = [('Add', 'ee'), ('Subtract', 'ee'), ('Negate', 'e'), ('Multiply', 'ee'), ('Square', 'e'), ('Invert', 'e'), ('Set', 'e'),
                     ('ConditionalSelect', 'eec'), ('ConditionalNegate', 'ec'), ('Equal', 'E'), ('IsZero', ''), ('Bytes', ''), ('SetBytes', 'b')]
            specs += [('IsOdd', ''), ('Sqrt', 'e'), ('Pow2k', 'ek')] if which == 'field' else [('IsGreaterThanHalfN', '')]
            for name, sig in specs:
                leaks = Leaks()
                holder = {}

                def h(ctx, name=name, sig=sig, M=M, mod=mod, leaks=leaks, holder=holder):
                    m = base_machine(ctx, leaks)
                    holder['m'] = m

                    def el(nm):
                        l = secret_limbs(nm)
                        ctx.assume(tm.ult(tm.lift(cat_limbs(l), 256), mod, 256))
                        return X.Ptr(m.new_obj(None, tree=[[], list(l)], label=nm), ())
                    args = [el('recv')]
                    for i, ch in enumerate(sig):
                        if ch in 'eE':
                            args.append(el('op%d' % i))
                        elif ch == 'c':
                            args.append(tm.var('ctrl', 64, SECRET))
                        elif ch == 'k':
                            args.append(5)
                        elif ch == 'b':
                            args.append(X.Ptr(m.new_obj(None, tree=[tm.var('src_%d' % j, 8, SECRET) for j in range(32)]), ()))
                    m.call(M + name, args)
                    sub.note_machine(m)
                lbl = 'method/%s.%s' % (which, name)
                paths = sub.explore(lbl, h)
                sub.add(lbl + '/single-path', [], len(paths) == 1 and paths[0].outcome == 'ok', meta={'paths': len(paths)})
                finish(sub, lbl, leaks, holder['m'])
    if not only or 'method' in only:
        tasks.append(('methods', t_methods))

    # ------------------------------------------------------------------ 2. scalar multiplications with a secret scalar
    def pub_point(m, name):
        tree = point_tree(m, name, [[], sym_limbs(name + '_x')], [[], sym_limbs(name + '_y')], [[], sym_limbs(name + '_z')], True)
        return X.Ptr(m.new_obj(None, tree=tree, label='Point:' + name), ())

    def sec_scalar(m, ctx, name, nonzero=True):
        l = secret_limbs(name)
        v = tm.lift(cat_limbs(l), 256)
        ctx.assume(tm.ult(v, N_ORDER, 256))
        if nonzero:
            ctx.assume(tm.bnot(tm.eq(v, 0, 256)))
        return X.Ptr(m.new_obj(None, tree=[[], list(l)], label=name), ())

    def t_mult(label, runner, unwind=80):
        def task(sub):
            leaks = Leaks()
            holder = {}

            def h(ctx):
                m = base_machine(ctx, leaks)
                m.unwind = unwind
                holder['m'] = m
                runner(m, ctx)
                sub.note_machine(m)
            paths = sub.explore('mult/' + label, h)
            sub.add('mult/%s/single-path-for-all-secrets' % label, [], len(paths) == 1 and paths[0].outcome == 'ok',
                    meta={'paths': len(paths), 'outcomes': [p.outcome for p in paths][:5]})
            finish(sub, 'mult/' + label, leaks, holder['m'])
        return task
    if not only or 'mult' in only:
        tasks.append(('mult', t_mult('ScalarMult', lambda m, ctx: m.call(PT + 'ScalarMult', [pub_point(m, 'v'), sec_scalar(m, ctx, 's', False), pub_point(m, 'P')]))))
        tasks.append(('mult', t_mult('ScalarBaseMult', lambda m, ctx: m.call(PT + 'ScalarBaseMult', [pub_point(m, 'v'), sec_scalar(m, ctx, 's', False)]))))

        def msm(l):
            def r(m, ctx):
                sc = [sec_scalar(m, ctx, 's%d' % i, False) for i in range(l)]
                ps = [pub_point(m, 'P%d' % i) for i in range(l)]
                so, po = m.new_obj(None, tree=list(sc)), m.new_obj(None, tree=list(ps))
                m.call(PT + 'MultiScalarMult', [pub_point(m, 'v'), X.Slice(so, (), 0, l, l), X.Slice(po, (), 0, l, l)])
            return r
        for l in (1, 2, 3):
            tasks.append(('mult', t_mult('MultiScalarMult@len%d' % l, msm(l))))
        chk.bounds.append('ScalarMult / ScalarBaseMult / MultiScalarMult (lengths 1..3): all secret scalars in [0,n), arbitrary public points; real ladders, tables and portable lookups executed')

        # long lists: a batch threshold / chunked or bucketed algorithm only shows there.  The list lengths are read from the current tree (every
        # constant the multi-scalar routines compare a value with, +-1).  Point arithmetic is opaque and taint-propagating here (its branch-freedom
        # is the short-list runs' and the kernels' claim); the dispatch, table, window and lookup code above it is executed from the real SSA.
        from .common import dispatch_lengths
        lens, consts = dispatch_lengths(prog, [PT + 'MultiScalarMult'], base=(33, 129), depth=3)
        lens = [l for l in lens if 4 <= l <= 300]
        if len(lens) > 9:
            lens = lens[:3] + lens[-6:]

        def msm_long(l):
            def r(m, ctx):
                install_point_primitives(m, ctx)
                sc = [sec_scalar(m, ctx, 's%d' % i, False) for i in range(l)]
                ps = [m.pt_new(0) for i in range(l)]
                so, po = m.new_obj(None, tree=list(sc)), m.new_obj(None, tree=list(ps))
                m.call(PT + 'MultiScalarMult', [m.pt_new(0), X.Slice(so, (), 0, l, l), X.Slice(po, (), 0, l, l)])
            return r
        for l in lens:
            tasks.append(('mult', t_mult('MultiScalarMult@len%d[point arithmetic opaque]' % l, msm_long(l), unwind=max(80, l + 8))))
        chk.bounds.append('MultiScalarMult, long lists: lengths %s (from the comparison constants %s of the current tree and 33, 129), all secret scalars, opaque point arithmetic' % (lens, consts))

    def install_point_primitives(m, ctx):
        """Point as an opaque value carrying one taint bit; the primitive point operations propagate it and never leak by themselves"""
        m.abstract_types[MOD + '.Point'] = lambda: X.Abs('pt', 'invalid')

        def mk(t):
            return X.Abs('pt', {'taint': 1 if t else 0})
        m.pt_new = lambda t: X.Ptr(m.new_obj(None, tree=mk(t), label='Point'), ())

        def tv(p, allow_invalid=True):
            v = m.load(p).v
            if v == 'invalid':
                if not allow_invalid:
                    raise X.GoPanic('secp256k1: use of uninitialized Point')
                return 0
            return v['taint']

        def put(p, t):
            m.store(p, mk(t))
            return p
        def merge(c, a, b):     # load / store through a symbolic index
            ta = 0 if a.v == 'invalid' else a.v['taint']
            tb = 0 if b.v == 'invalid' else b.v['taint']
            return mk(ta | tb | (1 if tainted(c) else 0))
        m.abs_merge = merge
        C = m.contracts
        C[ROOT + 'NewIdentityPoint'] = lambda m, a: m.pt_new(0)
        C[ROOT + 'NewGeneratorPoint'] = lambda m, a: m.pt_new(0)
        C[ROOT + 'newRcvr'] = lambda m, a: X.Ptr(m.new_obj(None, tree=X.Abs('pt', 'invalid'), label='Point'), ())
        C[ROOT + 'NewPointFrom'] = lambda m, a: m.pt_new(tv(a[0], False))
        C[ROOT + 'assertPointsValid'] = lambda m, a: [tv(p, False) for p in m.slice_elems(a[0])] and None
        C[PT + 'Identity'] = lambda m, a: put(a[0], 0)
        C[PT + 'Generator'] = lambda m, a: put(a[0], 0)
        for nm, chk_valid in (('Set', True), ('Negate', True), ('Double', True), ('doubleComplete', False), ('mulBeta', True)):
            C[PT + nm] = (lambda cv: lambda m, a: put(a[0], tv(a[1], not cv)))(chk_valid)
        for nm, chk_valid in (('Add', True), ('Subtract', True), ('addComplete', False)):
            C[PT + nm] = (lambda cv: lambda m, a: put(a[0], tv(a[1], not cv) | tv(a[2], not cv)))(chk_valid)
        C[PT + 'addMixed'] = lambda m, a: put(a[0], 1 if (tv(a[1]) or any(tainted(x) for x in tm_leaves(m, a[2])) or any(tainted(x) for x in tm_leaves(m, a[3]))) else 0)
        C[PT + 'ConditionalNegate'] = lambda m, a: put(a[0], tv(a[1], False) | (1 if tainted(a[2]) else 0))
        C[PT + 'ConditionalSelect'] = lambda m, a: put(a[0], tv(a[1], False) | tv(a[2], False) | (1 if tainted(a[3]) else 0))
        C[PT + 'uncheckedConditionalSelect'] = lambda m, a: put(a[0], tv(a[1]) | tv(a[2]) | (1 if tainted(a[3]) else 0))
        C[PT + 'IsIdentity'] = lambda m, a: tm.zext(tm.var('isid_%d' % id(m.load(a[0])), 1, SECRET if tv(a[0], False) else 0), 64)

    def tm_leaves(m, p):
        v = m.load(p)
        out = []

        def walk(x):
            if isinstance(x, (list, tuple)):
                for y in x:
                    walk(y)
            else:
                out.append(x)
        walk(v)
        return out

    # ------------------------------------------------------------------ 3. the SSE2 lookups: instruction stream with a secret index
    def t_asm(sub):
        funcs = asmx86.parse(open(os.path.join(REPO, 'point_mul_table_amd64.s')).read())
        from .c19 import flatten_layout
        for fn, tbl_t, out_t in (('lookupProjectivePoint', MOD + '.projectivePointMultTable', MOD + '.Point'),
                                 ('lookupAffinePoint', MOD + '.affinePointMultTable', MOD + '.affinePoint')):
            tb, ob = prog.types[prog.tid_by_str[tbl_t]]['size'], prog.types[prog.tid_by_str[out_t]]['size']
            idx = tm.var('idx', 64, SECRET)
            treg = asmx86.Region('tbl', [tm.var('t%d' % i, 64) for i in range(tb // 8)], tb)
            oreg = asmx86.Region('out', [tm.var('o%d' % i, 64) for i in range((ob + 7) // 8)], ob)
            ok, why = True, ''
            try:
                asmx86.run(funcs[fn], {'tbl': ('ptr', treg, 0), 'out': ('ptr', oreg, 0), 'idx': idx}, [treg, oreg])
            except (asmx86.AsmFault, asmx86.AsmError) as e:
                ok, why = False, str(e)
            sub.add('asm/%s/addresses-and-branches-independent-of-idx' % fn, [], ok, meta={'reason': why})
    if not only or 'asm' in only:
        tasks.append(('asm', t_asm))
        chk.notes.append('SSE2 lookups: the interpreter admits only concrete memory offsets and concrete branch conditions; running with a symbolic secret index shows the instruction stream and every address are index-independent')

    # ------------------------------------------------------------------ 4. protocol level: keys, ECDH, ECDSA signing, Schnorr
    def install_point_api(m, ctx, leaks):
        """Point API as opaque tainted values: s*G / s*P are identity iff s = 0 (prime order group); encodings of R = k*G and of
        public keys are published values (declassified); using a ...Vartime multiply with a secret scalar is reported."""
        cnt = [0]
        m.abstract_types[MOD + '.Point'] = lambda: X.Abs('pt', 'invalid')

        def fresh_pt(taint, isid):
            cnt[0] += 1
            return X.Abs('pt', {'id': cnt[0], 'taint': taint, 'isid': isid})

        def newpt(v):
            return X.Ptr(m.new_obj(None, tree=v, label='Point'), ())

        def sval(p):
            return tm.lift(cat_limbs(list(m.load(p)[1])), 256)

        def pget(p):
            v = m.load(p).v
            if v == 'invalid':
                raise X.GoPanic("uninitialized Point")
            return v
        C = m.contracts
        C[ROOT + 'NewIdentityPoint'] = lambda m, a: newpt(fresh_pt(0, True))
        C[ROOT + 'NewPointFrom'] = lambda m, a: newpt(X.Abs('pt', dict(pget(a[0]))))
        C[ROOT + 'NewGeneratorPoint'] = lambda m, a: newpt(fresh_pt(0, False))

        def mulc(name, ct):
            def c(m, a):
                s = sval(a[1])
                if not ct and tainted(s):
                    leaks.items.append(('vartime-call', name, m.cur_pos, 'secret scalar passed to a variable-time multiply'))
                isid = tm.eq(s, 0, 256)
                if len(a) > 2:
                    pi = pget(a[2])['isid']
                    isid = tm.bor(isid, pi)
                m.store(a[0], fresh_pt(1 if tainted(s) else 0, isid))
                return a[0]
            return c
        C[PT + 'ScalarBaseMult'] = mulc('ScalarBaseMult', True)
        C[PT + 'ScalarMult'] = mulc('ScalarMult', True)
        C[PT + 'scalarBaseMultVartime'] = mulc('scalarBaseMultVartime', False)
        C[PT + 'scalarMultVartimeGLV'] = mulc('scalarMultVartimeGLV', False)

        def c_dsm(m, a):
            for s in (sval(a[1]), sval(a[2])):
                if tainted(s):
                    leaks.items.append(('vartime-call', 'DoubleScalarMultBasepointVartime', m.cur_pos, 'secret scalar passed to a variable-time multiply'))
            m.store(a[0], fresh_pt(0, tm.boolvar('dsm_identity_%d' % cnt[0])))
            return a[0]
        C[PT + 'DoubleScalarMultBasepointVartime'] = c_dsm
        C[PT + 'IsIdentity'] = lambda m, a: tm.ite(pget(a[0])['isid'], 1, 0, 64)

        def enc(n, label):
            def c(m, a):
                p = pget(a[0])
                cnt[0] += 1
                # the encoding of R / of a public key is a published value
                if m.ctx.branch(p['isid']):
                    return m.new_byte_slice([0], label)
                return m.new_byte_slice([tm.var('%s_%d_%d' % (label, cnt[0], i), 8) for i in range(n)], label)
            return c
        C[PT + 'UncompressedBytes'] = enc(65, 'pointbytes')
        C[PT + 'CompressedBytes'] = enc(33, 'cpointbytes')

        def c_xbytes(m, a):
            p = pget(a[0])
            cnt[0] += 1
            if m.ctx.branch(p['isid']):
                from .common import make_error
                return (X.NILSLICE, make_error(m, 'point at infinity'))
            t = SECRET if p['taint'] else 0      # ECDH output: secret, but never branched on by the library
            return (m.new_byte_slice([tm.var('xbytes_%d_%d' % (cnt[0], i), 8, t) for i in range(32)], 'xbytes'), None)
        C[PT + 'XBytes'] = c_xbytes
        C[PT + 'ConditionalNegate'] = lambda m, a: (m.store(a[0], X.Abs('pt', dict(pget(a[1])))), a[0])[1]
        C[PT + 'IsYOdd'] = lambda m, a: tm.zext(tm.var('yodd_%d' % pget(a[0])['id'], 1), 64)
        C[PT + 'Equal'] = lambda m, a: tm.zext(tm.var('pteq_%d_%d' % (pget(a[0])['id'], pget(a[1])['id']), 1), 64)
        m.pt_new = lambda taint=0: newpt(fresh_pt(taint, False))

    def t_proto(label, runner):
        def task(sub):
            leaks = Leaks()
            holder = {}

            def h(ctx):
                m = base_machine(ctx, leaks, range_axioms=True)
                stubs.XOF_MAX_READS['n'] = 2
                install_point_api(m, ctx, leaks)
                # hash / XOF outputs derived from secrets are secret
                holder['m'] = m
                return runner(m, ctx)
            paths = sub.explore('proto/' + label, h, unwind_ok=True)
            m = holder['m']
            vt = sorted(x for x in leaks.items if x[0] == 'vartime-call')
            other = [x for x in leaks.items if x[0] != 'vartime-call']
            sub.add('proto/%s/no-secret-dependent-branch-or-index' % label, [], not other, meta={'leaks': other[:8]})
            sub.add('proto/%s/no-variable-time-multiply-on-a-secret' % label, [], not vt, meta={'calls': vt[:8]})
            sub.add('proto/%s/witness-success-path' % label, [], any(p.outcome == 'ok' and p.value == 'ok' for p in paths), meta={'paths': len(paths)})
            if leaks.declass:
                sub.notes.append('proto/%s: declassified: %s' % (label, sorted({(k[0], k[1], k[2]) for k in leaks.declass})))
            sub.note_machine(m)
            sub.samples.append({'entry': 'proto/' + label, 'paths': len(paths), 'secret_dependent_sites': other[:4],
                                'declassified': sorted({k[1] for k in leaks.declass})})
        return task

    def r_newprivkey(m, ctx):
        key = [tm.var('key_%d' % i, 8, SECRET) for i in range(32)]
        v = tm.lift(cat_bytes(key), 256)
        ctx.assume(tm.band(tm.bnot(tm.eq(v, 0, 256)), tm.ult(v, N_ORDER, 256)))      # a valid secret key
        k, err = m.call(SECEC + 'NewPrivateKey', [m.new_byte_slice(key, 'key')])
        return 'ok' if err is None else 'err'

    def make_priv(m, ctx, name='d'):
        k, err = m.call(SECEC + 'NewPrivateKeyFromScalar', [sec_scalar(m, ctx, name)])
        if err is not None:
            raise X.Infeasible()
        return k

    def r_ecdh(m, ctx):
        k = make_priv(m, ctx)
        from . import toy as T
        pub, err = m.call(SECEC + 'NewPublicKeyFromPoint', [m.pt_new(0)])
        out, err = m.call('(*' + MOD + '/secec.PrivateKey).ECDH', [k, pub])
        return 'ok' if err is None else 'err'

    def r_sign(m, ctx):
        k = make_priv(m, ctx)
        digest = sym_bytes('h', 32)
        ent = [tm.var('ent_%d' % i, 8, SECRET) for i in range(64)]
        rd = stubs.ScriptedReader(ent)
        # the hedged generator's output stream is secret
        orig = stubs.H
        r, s, v, err = m.call('(*' + MOD + '/secec.PrivateKey).SignRaw', [k, stubs.reader_iface(rd), m.new_byte_slice(digest, 'digest')])
        return 'ok' if err is None else 'err'

    def r_schnorr_key(m, ctx):
        k = make_priv(m, ctx)
        sk = m.call(BTC + 'NewSchnorrPrivateKeyFromECDSA', [k])
        return 'ok'

    def r_schnorr_sign(m, ctx):
        k = make_priv(m, ctx)
        sk = m.call(BTC + 'NewSchnorrPrivateKeyFromECDSA', [k])
        aux = [tm.var('aux_%d' % i, 8, SECRET) for i in range(32)]
        ao = m.new_obj(None, tree=list(aux), label='aux')
        # self-verification recomputes the public nonce point R from secrets: R.IsIdentity / parity / x compare are on a public value
        sig, err = m.call(BTC + 'signSchnorr', [X.Ptr(ao, ()), sk, m.new_byte_slice(sym_bytes('m', 32), 'msg')])
        return 'ok' if err is None else 'err'
    if not only or 'proto' in only:
        DECLASS_RULES.append(('bitcoin.verifySchnorrSignatureR', None, 'self-check on the recomputed PUBLIC nonce point R (the R whose x-coordinate is in the '
                              'signature and whose y is even by construction): identity test, parity and x comparison are on published values'))
        tasks.append(('proto', t_proto('NewPrivateKey', r_newprivkey)))
        tasks.append(('proto', t_proto('ECDH', r_ecdh)))
        tasks.append(('proto', t_proto('SignRaw', r_sign)))
        tasks.append(('proto', t_proto('NewSchnorrPrivateKeyFromECDSA', r_schnorr_key)))
        tasks.append(('proto', t_proto('signSchnorr', r_schnorr_sign)))
        chk.bounds.append('NewPrivateKey / NewPrivateKeyFromScalar / ECDH / SignRaw / Schnorr key derivation / signSchnorr: all valid secret keys, nonces, entropy; '
                          'point API opaque (identity iff scalar = 0), point encodings of R and of public keys are published values')
        chk.assumptions.append('declassified decisions (listed in notes): nonce-candidate rejection, r = 0 / s = 0 retry, k\' = 0 failure, Schnorr self-check on the public R')
    chk.outside.append('the Go compiler back end and the CPU (instruction timing); stdlib hash internals')
    chk.run_tasks(tasks)
    chk.discharge()
    chk.finish()


if __name__ == '__main__':
    from .common import run_main
    run_main(main)
