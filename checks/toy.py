"""Toy-parameter interpretation of the protocol layer (C07, C08, C10, C11, C13, C14).

The protocol code (secec, secec/bitcoin) never inspects limbs or coordinates: it is parametric in the
curve through the Scalar / Point API.  Here that API is instantiated for a real curve y^2 = x^3 + 7 over
F_p' of prime order n' (tiny), so every value is a narrow bit-vector, the whole SEC 1 / BIP-340 functional
specification becomes decidable, and the branches that are unreachable in practice for secp256k1
(r = 0, x(R) >= n, R = O, rejected nonces) are reachable.

Scalars: the real scalar.go runs over the fiat-scalar kernel contracts with modulus n' and the package
constants (nSat, halfNSat, nBytes) set to their n' counterparts; SetBytes/SetCanonicalBytes/Invert are
method contracts (their full-width correctness is C02's business).
Points: abstract group elements represented by their discrete logarithm k (P = k*G', identity = 0); every
Point method/function the protocol layer calls is a contract stated directly from its documentation
(C03-C06 discharge them at full width).
"""
from .common import tm, X, MOD, cat_bytes, cat_limbs, make_error
from . import models

W = 16  # working width for toy arithmetic (p', n' < 256; products < 2^16)
ROOT = MOD + '.'
SC = '(*' + MOD + '.Scalar).'
PT = '(*' + MOD + '.Point).'
FIELDPKG = MOD + '/internal/field.'


class Toy:
    def __init__(self, p, n):
        self.p, self.n = p, n
        pts = [(x, y) for x in range(p) for y in range(p) if (y * y - x ** 3 - 7) % p == 0]
        assert len(pts) + 1 == n, (p, n, len(pts))
        G = None
        for cand in pts:
            G = cand
            break
        self.G = G
        self.mult = [None]
        for i in range(1, n):
            self.mult.append(self.add(self.mult[-1], G))
        assert self.add(self.mult[-1], G) is None
        self.index = {pt: k for k, pt in enumerate(self.mult) if pt is not None}
        # a point with x >= n' must exist for the interesting branches
        self.has_big_x = any(pt[0] >= n for pt in pts)
        self.has_x_eq_n = any(pt[0] == n for pt in pts)

    def add(self, P, Q):
        p = self.p
        if P is None:
            return Q
        if Q is None:
            return P
        x1, y1 = P
        x2, y2 = Q
        if x1 == x2 and (y1 + y2) % p == 0:
            return None
        if P == Q:
            l = (3 * x1 * x1 * pow(2 * y1, -1, p)) % p
        else:
            l = ((y2 - y1) * pow(x2 - x1, -1, p)) % p
        x3 = (l * l - x1 - x2) % p
        return (x3, (l * (x1 - x3) - y1) % p)

    # ------------------------------------------------------------ narrow symbolic arithmetic
    def tbl(self, idx, vals, default=0, w=W):
        """lookup table as an ite chain; idx is a W-bit term or int"""
        if not isinstance(idx, tm.T):
            v = vals[idx] if idx < len(vals) else None
            return default if v is None else v
        r = default
        for i in range(len(vals) - 1, -1, -1):
            if vals[i] is not None:
                r = tm.ite(tm.eq(idx, i, W), vals[i], r, w)
        return r

    def modn(self, x):
        return tm.bv('urem', x, self.n, W)

    def addn(self, a, b):
        return self.modn(tm.bv('add', a, b, W))

    def muln(self, a, b):
        return self.modn(tm.bv('mul', a, b, W))

    def negn(self, a):
        return self.modn(tm.bv('sub', self.n, a, W))

    def invn(self, a):
        return self.tbl(a, [0] + [pow(i, -1, self.n) for i in range(1, self.n)])

    def X(self, k):
        return self.tbl(k, [None] + [m[0] for m in self.mult[1:]])

    def Y(self, k):
        return self.tbl(k, [None] + [m[1] for m in self.mult[1:]])

    def lift(self, x, odd):
        """(found, k): the point with x-coordinate x (W-bit) and y parity `odd` (Bool)"""
        found = False
        kk = 0
        for i in range(1, self.n):
            px, py = self.mult[i]
            c = tm.band(tm.eq(x, px, W), tm.eq(odd, bool(py & 1), 0))
            found = tm.bor(found, c)
            kk = tm.ite(c, i, kk, W)
        return found, kk

    def on_curve(self, x, y):
        r = False
        k = 0
        for i in range(1, self.n):
            px, py = self.mult[i]
            c = tm.band(tm.eq(x, px, W), tm.eq(y, py, W))
            r = tm.bor(r, c)
            k = tm.ite(c, i, k, W)
        return r, k


TOYS = {}


def get_toy(p, n):
    if (p, n) not in TOYS:
        TOYS[(p, n)] = Toy(p, n)
    return TOYS[(p, n)]


# ---------------------------------------------------------------------------------- encodings
def narrow(v256):
    """low W bits of a 256-bit value known to fit"""
    if isinstance(v256, tm.T):
        return tm.extract(v256, W - 1, 0)
    return v256 & ((1 << W) - 1)


def widen_limbs(v):
    """W-bit value -> four 64-bit limbs"""
    if isinstance(v, tm.T):
        return [tm.zext(v, 64), 0, 0, 0]
    return [v, 0, 0, 0]


def be32(v):
    """W-bit value -> 32 big-endian bytes"""
    if isinstance(v, tm.T):
        return [0] * 30 + [tm.extract(v, 15, 8), tm.extract(v, 7, 0)]
    return [0] * 30 + [(v >> 8) & 0xff, v & 0xff]


def int_of_bytes(bs):
    """32 byte terms -> (fits, W-bit value): fits = upper 30 bytes are zero"""
    fits = tm.band_all([tm.eq(b, 0, 8) for b in bs[:-2]])
    lo = tm.concat_w(bs[-2], 8, bs[-1], 8)
    return fits, lo


INVALID = 'invalid-point'


def install(m, toy):
    """install the toy interpretation on machine m"""
    n, p = toy.n, toy.p
    C = m.contracts
    S = models.SCALAR

    def ld(ptr):
        return narrow(cat_limbs(list(m.load(ptr))))

    def st(ptr, v):
        m.store(ptr, widen_limbs(v))
    C[S + 'Add'] = lambda m, a: st(a[0], toy.addn(ld(a[1]), ld(a[2])))
    C[S + 'Sub'] = lambda m, a: st(a[0], toy.addn(ld(a[1]), toy.negn(ld(a[2]))))
    C[S + 'Opp'] = lambda m, a: st(a[0], toy.negn(ld(a[1])))
    C[S + 'Mul'] = lambda m, a: st(a[0], toy.muln(ld(a[1]), ld(a[2])))
    C[S + 'Square'] = lambda m, a: st(a[0], toy.muln(ld(a[1]), ld(a[1])))
    C[S + 'ToMontgomery'] = lambda m, a: st(a[0], ld(a[1]))
    C[S + 'FromMontgomery'] = lambda m, a: st(a[0], ld(a[1]))
    C[S + 'SetOne'] = lambda m, a: st(a[0], 1)
    # package constants of the scalar ring
    m.global_init[ROOT + 'nSat'] = lambda mm: [n, 0, 0, 0, 0]
    m.global_init[ROOT + 'halfNSat'] = lambda mm: [(n - 1) // 2, 0, 0, 0]
    m.global_init[ROOT + 'nBytes'] = lambda mm: mm.new_byte_slice(be32(n), 'nBytes')

    def sval(ptr):
        return narrow(cat_limbs(list(m.load(ptr)[1])))

    def sset(ptr, v):
        m.store(X.Ptr(ptr.obj, ptr.path + (1,)), widen_limbs(v))

    def src_value(arrptr):
        bs = list(m.load(arrptr))
        fits, lo = int_of_bytes(bs)
        if isinstance(fits, tm.T):
            # harness bound: 32-byte strings with the upper 30 bytes zero (stated in evidence)
            m.ctx.assume(fits)
        elif not fits:
            raise X.Unsupported("toy: 32-byte value exceeds 16 bits")
        return lo

    def c_setbytes(m, a):
        v = src_value(a[1])
        sset(a[0], tm.bv('urem', v, n, W))
        return (a[0], tm.ite(tm.ule(n, v, W), 1, 0, 64))
    C[SC + 'SetBytes'] = c_setbytes

    def c_setcanon(m, a):
        v = src_value(a[1])
        if m.ctx.branch(tm.ult(v, n, W)):
            sset(a[0], v)
            return (a[0], None)
        return (X.NILPTR, make_error(m, 'scalar value out of range'))
    C[SC + 'SetCanonicalBytes'] = c_setcanon

    def c_inv(m, a):
        sset(a[0], toy.invn(sval(a[1])))
        return a[0]
    C[SC + 'Invert'] = c_inv

    # ------------------------------------------------------------------ points (abstract: discrete log)
    m.abstract_types[MOD + '.Point'] = lambda: X.Abs('pt', INVALID)

    def pget(ptr, what='operand'):
        v = m.load(ptr)
        if not isinstance(v, X.Abs):
            return dematerialize(v)
        if v.v is INVALID or (isinstance(v.v, str)):
            raise X.GoPanic("secp256k1: use of uninitialized Point")
        return v.v

    # ---- coordinate-level image of a point, for code of the current tree that reaches below the Point API (a new Point method written
    # over x, y, z; a raw coordinate copy): the abstract group element k is replaced, on demand, by an arbitrary projective
    # representative (lam*x_k, lam*y_k, lam) resp. (0, lam, 0) over the toy field, field.Element methods are interpreted mod p', and the
    # real code runs on it; when such a point flows back into the Point API it must be a valid point of the toy curve (obligation).
    from . import fieldalg as FA
    alg = FA.ToyField(p)
    nmat = [0]

    mat_cache = {}

    def materialize(node):
        # one representative per abstract value: reading x and z of the same stored point must see the same scaling
        hit = mat_cache.get(id(node))
        if hit is not None and hit[0] is node:
            return hit[1]
        tree = materialize1(node)
        mat_cache[id(node)] = (node, tree)
        return tree

    def materialize1(node):
        if node.v is INVALID or isinstance(node.v, str):
            z = X.Abs('fe', 0)
            return [[], z, X.Abs('fe', 0), X.Abs('fe', 0), False]
        nmat[0] += 1
        lam = tm.var('lam_pt%d' % nmat[0], W)
        m.ctx.assume(tm.band(tm.bnot(tm.eq(lam, 0, W)), tm.ult(lam, p, W)))
        k = node.v
        if isinstance(k, tm.T):
            isid = tm.eq(k, 0, W)
            x = tm.ite(isid, 0, alg.mul(lam, toy.X(k)), W)
            y = tm.ite(isid, lam, alg.mul(lam, toy.Y(k)), W)
            z = tm.ite(isid, 0, lam, W)
        elif k == 0:
            x, y, z = 0, lam, 0
        else:
            x, y, z = alg.mul(lam, toy.mult[k][0]), alg.mul(lam, toy.mult[k][1]), lam
        return [[], X.Abs('fe', x), X.Abs('fe', y), X.Abs('fe', z), True]

    def dematerialize(v):
        if not (isinstance(v, (list, tuple)) and len(v) == 5):
            raise X.AbstractionBreach("point %r" % (v,))
        if v[4] is False:
            raise X.GoPanic("secp256k1: use of uninitialized Point")
        if v[4] is not True:
            raise X.Unsupported("symbolic isValid flag")
        x, y, z = [FA.leaf_value(c) for c in v[1:4]]
        zi = alg.inv(z)
        on, k = toy.on_curve(alg.mul(x, zi), alg.mul(y, zi))
        isid = tm.eq(z, 0, W)
        valid = tm.ite(isid, tm.band(tm.eq(x, 0, W), tm.bnot(tm.eq(y, 0, W))), on, 0)
        m.ctx.check(valid, 'bv:coordinate-level-point-is-on-the-curve-or-the-identity')
        return tm.ite(isid, 0, k, W)

    def enable_coordinate_image():
        FA.install(m, alg, {ROOT + 'feGX': toy.G[0], ROOT + 'feGY': toy.G[1], ROOT + 'feN': toy.n})   # constants mapped by role; b, 3b are read from the tree
        fe_merge = m.abs_merge

        def merge2(c, a, b):
            if a.kind == 'fe' and b.kind == 'fe':
                return fe_merge(c, a, b)
            if a.kind == 'pt' and b.kind == 'pt':
                return merge(c, a, b)
            raise X.Unsupported("merge of %r / %r" % (a, b))
        m.abs_merge = merge2
        m.abs_materialize = dict(m.abs_materialize or {})
        m.abs_materialize['pt'] = materialize

    def pset(ptr, k):
        m.store(ptr, X.Abs('pt', k))
        return ptr

    def newpt(k):
        o = m.new_obj(None, tree=X.Abs('pt', k), label='Point')
        return X.Ptr(o, ())

    def merge(c, a, b):
        return X.Abs('pt', tm.ite(c, a.v, b.v, W))
    m.abs_merge = merge
    enable_coordinate_image()

    C[PT + 'Identity'] = lambda m, a: pset(a[0], 0)
    C[PT + 'Generator'] = lambda m, a: pset(a[0], 1)
    C[ROOT + 'NewIdentityPoint'] = lambda m, a: newpt(0)
    C[ROOT + 'NewGeneratorPoint'] = lambda m, a: newpt(1)
    C[ROOT + 'NewPointFrom'] = lambda m, a: newpt(pget(a[0]))
    C[ROOT + 'newRcvr'] = lambda m, a: newpt(INVALID)
    C[PT + 'Set'] = lambda m, a: pset(a[0], pget(a[1]))
    C[PT + 'Add'] = lambda m, a: pset(a[0], toy.addn(pget(a[1]), pget(a[2])))
    C[PT + 'Subtract'] = lambda m, a: pset(a[0], toy.addn(pget(a[1]), toy.negn(pget(a[2]))))
    C[PT + 'Double'] = lambda m, a: pset(a[0], toy.addn(pget(a[1]), pget(a[1])))
    C[PT + 'Negate'] = lambda m, a: pset(a[0], toy.negn(pget(a[1])))
    C[PT + 'ConditionalNegate'] = lambda m, a: pset(a[0], (lambda k: tm.ite(tm.eq(a[2], 0, 64), k, toy.negn(k), W))(pget(a[1])))
    C[PT + 'ConditionalSelect'] = lambda m, a: pset(a[0], tm.ite(tm.eq(a[3], 0, 64), pget(a[1]), pget(a[2]), W))
    C[PT + 'Equal'] = lambda m, a: tm.ite(tm.eq(pget(a[0]), pget(a[1]), W), 1, 0, 64)
    C[PT + 'IsIdentity'] = lambda m, a: tm.ite(tm.eq(pget(a[0]), 0, W), 1, 0, 64)
    def c_isyodd(m, a):
        y = toy.Y(pget(a[0]))
        return tm.zext(tm.extract(y, 0, 0), 64) if tm.is_sym(y) else (y & 1)
    C[PT + 'IsYOdd'] = c_isyodd
    C[PT + 'ScalarBaseMult'] = lambda m, a: pset(a[0], sval(a[1]))
    C[PT + 'scalarBaseMultVartime'] = lambda m, a: pset(a[0], sval(a[1]))
    C[PT + 'ScalarMult'] = lambda m, a: pset(a[0], toy.muln(sval(a[1]), pget(a[2])))
    C[PT + 'scalarMultVartimeGLV'] = lambda m, a: pset(a[0], toy.muln(sval(a[1]), pget(a[2])))
    C[PT + 'DoubleScalarMultBasepointVartime'] = lambda m, a: pset(a[0], toy.addn(sval(a[1]), toy.muln(sval(a[2]), pget(a[3]))))

    def enc_uncompressed(k):
        return [4] + be32(toy.X(k)) + be32(toy.Y(k))

    def enc_compressed(k):
        y = toy.Y(k)
        odd = tm.extract(tm.lift(y, W), 0, 0) if tm.is_sym(y) else (y & 1)
        pre = tm.bv('add', tm.zext(odd, 8), 2, 8) if tm.is_sym(odd) else 2 + odd
        return [pre] + be32(toy.X(k))

    def c_uncompressed(m, a):
        k = pget(a[0])
        if m.ctx.branch(tm.eq(k, 0, W)):
            return m.new_byte_slice([0], 'point-bytes')
        return m.new_byte_slice(enc_uncompressed(k), 'point-bytes')
    C[PT + 'UncompressedBytes'] = c_uncompressed

    def c_compressed(m, a):
        k = pget(a[0])
        if m.ctx.branch(tm.eq(k, 0, W)):
            return m.new_byte_slice([0], 'point-bytes')
        return m.new_byte_slice(enc_compressed(k), 'point-bytes')
    C[PT + 'CompressedBytes'] = c_compressed

    def c_xbytes(m, a):
        k = pget(a[0])
        if m.ctx.branch(tm.eq(k, 0, W)):
            return (X.NILSLICE, make_error(m, 'point not on curve'))
        return (m.new_byte_slice(be32(toy.X(k)), 'x-bytes'), None)
    C[PT + 'XBytes'] = c_xbytes

    def decode(src):
        """SEC 1 decode of a byte slice -> (ok Bool, k)"""
        el = m.slice_elems(src)
        L = len(el)
        if L == 1:
            return tm.eq(el[0], 0, 8), 0
        if L == 33:
            fits, x = int_of_bytes(el[1:33])
            okp = tm.bor(tm.eq(el[0], 2, 8), tm.eq(el[0], 3, 8))
            found, k = toy.lift(x, tm.eq(tm.bv('and', el[0], 1, 8), 1, 8))
            return tm.band_all([fits, okp, tm.ult(x, p, W), found]), k
        if L == 65:
            fx, x = int_of_bytes(el[1:33])
            fy, y = int_of_bytes(el[33:65])
            on, k = toy.on_curve(x, y)
            return tm.band_all([fx, fy, tm.eq(el[0], 4, 8), on]), k
        return False, 0

    def c_setbytes_pt(m, a):
        ok, k = decode(a[1])
        if m.ctx.branch(ok):
            pset(a[0], k)
            return (a[0], None)
        return (X.NILPTR, make_error(m, 'invalid point encoding'))
    C[PT + 'SetBytes'] = c_setbytes_pt

    def c_newfrombytes(m, a):
        ok, k = decode(a[0])
        if m.ctx.branch(ok):
            return (newpt(k), None)
        return (X.NILPTR, make_error(m, 'invalid point encoding'))
    C[ROOT + 'NewPointFromBytes'] = c_newfrombytes

    def c_recoverpoint(m, a):
        r = sval(a[0])
        rid = a[1]
        hi = tm.eq(tm.bv('and', rid, 2, 8), 2, 8)
        x = tm.bv('add', r, tm.ite(hi, n, 0, W), W)
        found, k = toy.lift(x, tm.eq(tm.bv('and', rid, 1, 8), 1, 8))
        ok = tm.band_all([tm.ult(rid, 4, 8), tm.ult(x, p, W), found])
        if m.ctx.branch(ok):
            return (newpt(k), None)
        return (X.NILPTR, make_error(m, 'invalid recovery'))
    C[ROOT + 'RecoverPoint'] = c_recoverpoint

    def c_canon_field(m, a):
        bs = list(m.load(a[0]))
        fits, v = int_of_bytes(bs)
        return tm.band(fits, tm.ult(v, p, W))
    C[FIELDPKG + 'BytesAreCanonical'] = c_canon_field

    m.toy = toy
    m.toy_sval = sval
    m.toy_pget = pget
    m.toy_newpt = newpt
    return m


CONTRACT_SUMMARY = {
    'Scalar kernels / SetBytes / SetCanonicalBytes / Invert (toy n\')': 'arithmetic mod n\' as specified; full-width counterparts discharged by C02',
    'Point API (toy)': 'group of prime order n\' in discrete-log representation with x/y tables of the real toy curve; full-width counterparts discharged by C03-C06, C16',
    'RecoverPoint (toy)': 'its SEC 1 section 4.1.6 specification; the real code is discharged at full width by C06 recover/*',
}


# ---------------------------------------------------------------------------------- object builders
def new_scalar(m, v):
    return X.Ptr(m.new_obj(None, tree=[[], widen_limbs(v)], label='Scalar'), ())


def field_index(m, tstr, name):
    P = m.prog
    tid = P.tid_by_str[tstr]
    for i, f in enumerate(P.under(tid)['fields']):
        if f['name'] == name:
            return i
    raise X.Unsupported("type %s has no field %s" % (tstr, name))


def fld(m, ptr, tstr, name):
    """value of field `name` of the struct (type string tstr) that ptr points to -- by name, so that the harness does
    not depend on the field layout of the key types"""
    return m.load(ptr)[field_index(m, tstr, name)]


PUB_T = MOD + '/secec.PublicKey'
PRIV_T = MOD + '/secec.PrivateKey'


def new_public_key(m, k):
    """a PublicKey for point index k (k != 0 assumed by the caller), built by the real constructor"""
    key, err = m.call(MOD + '/secec.NewPublicKeyFromPoint', [m.toy_newpt(k)])
    if err is not None:
        raise X.Infeasible()
    return key


def new_private_key(m, d):
    """a PrivateKey for scalar d in [1,n'), built by the real constructor"""
    key, err = m.call(MOD + '/secec.NewPrivateKeyFromScalar', [new_scalar(m, d)])
    if err is not None:
        raise X.Infeasible()
    return key
