"""C03 Point addition/doubling/negation implement the secp256k1 group law completely."""
import os
import z3
from .common import Check, load_prog, load_globals, new_machine, tm, X, MOD, cat_bytes, point_tree, point_get
from . import fieldalg as FA, toy as T

ROOT = MOD + '.'
PT = '(*' + MOD + '.Point).'
W = 16
CONSTS = {}   # feB3 / feB are read from the current tree's package state (native dump), never overridden


def part_label(p):
    cls = {}
    for n, c in p.items():
        cls.setdefault(c, []).append(n)
    return '|'.join('='.join(v) for v in cls.values())


def partitions(names):
    out = []

    def rec(i, assign, k):
        if i == len(names):
            out.append(dict(zip(names, assign)))
            return
        for c in range(k + 1):
            rec(i + 1, assign + [c], max(k, c + 1))
    rec(0, [], 0)
    return out


def rcb_add(X1, Y1, Z1, X2, Y2, Z2, b3=21):
    """Renes-Costello-Batina 2015, complete addition for a = 0 (closed form of Algorithm 7)"""
    X3 = (X1 * Y2 + X2 * Y1) * (Y1 * Y2 - b3 * Z1 * Z2) - b3 * (Y1 * Z2 + Y2 * Z1) * (X1 * Z2 + X2 * Z1)
    Y3 = 3 * X1 * X2 * b3 * (X1 * Z2 + X2 * Z1) + (Y1 * Y2 + b3 * Z1 * Z2) * (Y1 * Y2 - b3 * Z1 * Z2)
    Z3 = (Y1 * Z2 + Y2 * Z1) * (Y1 * Y2 + b3 * Z1 * Z2) + 3 * X1 * X2 * (X1 * Y2 + X2 * Y1)
    return X3, Y3, Z3


def rcb_double(X1, Y1, Z1, b3=21):
    """closed form of Algorithm 9 (a = 0)"""
    X3 = 2 * X1 * Y1 * (Y1 * Y1 - 3 * b3 * Z1 * Z1)
    Y3 = (Y1 * Y1 - 3 * b3 * Z1 * Z1) * (Y1 * Y1 + b3 * Z1 * Z1) + 8 * b3 * Y1 * Y1 * Z1 * Z1
    Z3 = 8 * Y1 * Y1 * Y1 * Z1
    return X3, Y3, Z3


def main():
    chk = Check('C03')
    tasks = build(chk, os.environ.get('VERIF_ONLY', ''))
    chk.run_tasks(tasks)
    chk.discharge()
    chk.finish()


def build(chk, only=''):
    """append this check's tasks (restricted to the groups named in `only`) to a task list; also used by the checks that
    depend on this one's contracts (common.include_dependency)"""
    prog = load_prog()
    gl = load_globals(prog)
    chk.summaries.update(FA.SUMMARY)
    tasks = []

    # ------------------------------------------------------------------ 1. formula identities over Z, every alias partition
    def poly_point(m, name, coords, valid=True):
        tree = point_tree(m, name, X.Abs('fe', coords[0]), X.Abs('fe', coords[1]), X.Abs('fe', coords[2]), valid)
        return m.new_obj(None, tree=tree, label='Point:' + name)

    def pcoords(o):
        return [FA.leaf_value(point_get(prog, o, f)) for f in ('x', 'y', 'z')]

    def t_formula(fn, part):
        def task(sub):
            res = {}

            def h(ctx):
                m = new_machine(prog, ctx, gl, value_model=True)
                FA.install(m, FA.PolyZ(), CONSTS)
                names = list(part)
                objs = {}
                vals = {}
                for n in names:
                    c = part[n]
                    if c not in objs:
                        cs = [z3.Int('%s_%s' % (ch, n)) for ch in 'XYZ']
                        objs[c] = poly_point(m, n, cs)
                        vals[c] = cs
                ptr = {n: X.Ptr(objs[part[n]], ()) for n in names}
                P = vals[part['p']]
                if fn == 'addComplete':
                    Q = vals[part['q']]
                    m.call(PT + fn, [ptr['v'], ptr['p'], ptr['q']])
                    want = rcb_add(P[0], P[1], P[2], Q[0], Q[1], Q[2])
                elif fn == 'addMixed':
                    x2, y2 = z3.Int('X_q'), z3.Int('Y_q')
                    ex = m.new_obj(None, tree=X.Abs('fe', x2), label='x2')
                    ey = m.new_obj(None, tree=X.Abs('fe', y2), label='y2')
                    m.call(PT + fn, [ptr['v'], ptr['p'], X.Ptr(ex, ()), X.Ptr(ey, ())])
                    want = rcb_add(P[0], P[1], P[2], x2, y2, 1)
                else:
                    m.call(PT + fn, [ptr['v'], ptr['p']])
                    want = rcb_double(P[0], P[1], P[2])
                res['got'] = pcoords(ptr['v'].obj)
                res['want'] = want
                # homogeneity: scaling the operands scales the result by a monomial in the scale factors
                lam, mu = z3.Int('lam'), z3.Int('mu')
                m2 = new_machine(prog, ctx, gl, value_model=True)
                FA.install(m2, FA.PolyZ(), CONSTS)
                objs2 = {}
                scale = {'p': lam, 'q': mu}
                for n in names:
                    c = part[n]
                    if c not in objs2:
                        src = [x for x in names if part[x] == c and x != 'v']
                        if src:
                            sc = scale[src[0]]
                            objs2[c] = poly_point(m2, n, [sc * v for v in vals[c]])
                        else:
                            objs2[c] = poly_point(m2, n, vals[c])
                ptr2 = {n: X.Ptr(objs2[part[n]], ()) for n in names}
                if fn == 'addComplete':
                    m2.call(PT + fn, [ptr2['v'], ptr2['p'], ptr2['q']])
                    f = lam * lam * mu * mu if part['p'] != part['q'] else lam * lam * lam * lam
                elif fn == 'addMixed':
                    ex2 = m2.new_obj(None, tree=X.Abs('fe', x2), label='x2')
                    ey2 = m2.new_obj(None, tree=X.Abs('fe', y2), label='y2')
                    m2.call(PT + fn, [ptr2['v'], ptr2['p'], X.Ptr(ex2, ()), X.Ptr(ey2, ())])
                    f = lam * lam
                else:
                    m2.call(PT + fn, [ptr2['v'], ptr2['p']])
                    f = lam * lam * lam * lam
                res['scaled'] = pcoords(ptr2['v'].obj)
                res['factor'] = f
                res['others'] = [(pcoords(ptr[n].obj), vals[part[n]]) for n in names if part[n] != part['v']]
                sub.note_machine(m)
            lbl = 'formula/%s[%s]' % (fn, part_label(part))
            sub.explore(lbl, h)
            if 'got' in res:
                for i, ch in enumerate('XYZ'):
                    sub.add('%s/%s3=RCB-closed-form' % (lbl, ch), [], res['got'][i] == res['want'][i], mode='z3', timeout=120)
                for i, ch in enumerate('XYZ'):
                    sub.add('%s/homogeneous-%s' % (lbl, ch), [], res['scaled'][i] == res['factor'] * res['got'][i], mode='z3', timeout=120)
                for got, orig in res['others']:
                    sub.add(lbl + '/operands-unchanged', [], z3.And([g == o for g, o in zip(got, orig)]), mode='z3')
        return task
    if not only or 'formula' in only:
        for part in partitions(['v', 'p', 'q']):
            tasks.append(('formula', t_formula('addComplete', part)))
        for part in partitions(['v', 'p']):
            tasks.append(('formula', t_formula('addMixed', part)))
            tasks.append(('formula', t_formula('doubleComplete', part)))
        chk.bounds.append('addComplete / addMixed / doubleComplete: polynomial identity with the Renes-Costello-Batina closed forms over Z[X1..Z2] '
                          '(hence every operand value, representative and field), every alias partition of receiver and operands')

    # ------------------------------------------------------------------ 2. group-law semantics over toy fields
    def toy_machine(ctx, toy):
        m = new_machine(prog, ctx, gl, value_model=True)
        alg = FA.ToyField(toy.p)
        g = toy.G
        FA.install(m, alg, {ROOT + 'feGX': g[0], ROOT + 'feGY': g[1]})   # generator mapped by role; b, 3b from the real tree
        return m, alg

    def toy_point(m, alg, toy, name, k, lam, valid=True, extra='zero'):
        """projective representative (lam*x_k, lam*y_k, lam) of k*G, or (0, lam, 0) for k = 0 (lam != 0)"""
        isid = tm.eq(k, 0, W)
        x = tm.ite(isid, 0, alg.mul(lam, toy.X(k)), W)
        y = tm.ite(isid, lam, alg.mul(lam, toy.Y(k)), W)
        z = tm.ite(isid, 0, lam, W)
        tree = point_tree(m, name, X.Abs('fe', x), X.Abs('fe', y), X.Abs('fe', z), valid, extra=extra)
        return m.new_obj(None, tree=tree, label='Point:' + name)

    def index_of(alg, toy, o):
        """(valid, k): group index of the projective point held by object o"""
        x, y, z = [FA.leaf_value(point_get(prog, o, f)) for f in ('x', 'y', 'z')]
        zi = alg.inv(z)
        ax, ay = alg.mul(x, zi), alg.mul(y, zi)
        on, k = toy.on_curve(ax, ay)
        isid = tm.eq(z, 0, W)
        valid = tm.ite(isid, tm.band(tm.eq(x, 0, W), tm.bnot(tm.eq(y, 0, W))), on, 0)
        return valid, tm.ite(isid, 0, k, W)

    def t_law(toy, op, k1, k2, part):
        def task(sub):
            def h(ctx):
                m, alg = toy_machine(ctx, toy)
                # canonical representatives (Z = 1, identity = (0,1,0)); every other representative follows from the
                # homogeneity identities formula/*/homogeneous (result scales by a non-zero factor)
                l1, l2, l3 = 1, 1, tm.var('lam3', W)
                ctx.assume(tm.band(tm.bnot(tm.eq(l3, 0, W)), tm.ult(l3, toy.p, W)))
                kk1 = tm.var('k1', W) if k1 is None else k1
                kk2 = tm.var('k2', W) if k2 is None else k2
                for k in (kk1, kk2):
                    if isinstance(k, tm.T):
                        ctx.assume(tm.ult(k, toy.n, W))
                objs = {}
                spec = {'p': (kk1, l1), 'q': (kk2, l2), 'v': (tm.var('k3', W), l3)}
                names = ['v', 'p', 'q'] if op in ('Add', 'Subtract') else ['v', 'p']
                idx = {}
                for n in names:
                    c = part[n]
                    if c not in objs:
                        src = [x for x in names if part[x] == c and x != 'v']
                        kx, lx = spec[src[0]] if src else spec['v']
                        if not src:
                            ctx.assume(tm.ult(kx, toy.n, W))
                        # a pure receiver: any valid point, any representation, any bookkeeping left behind by earlier uses of the object
                        objs[c] = (toy_point(m, alg, toy, n, kx, lx, extra='zero' if src else 'any'), kx)
                    idx[n] = objs[c][1]
                ptr = {n: X.Ptr(objs[part[n]][0], ()) for n in names}
                if op == 'Add':
                    r = m.call(PT + 'Add', [ptr['v'], ptr['p'], ptr['q']])
                    want = toy.addn(idx['p'], idx['q'])
                elif op == 'Subtract':
                    r = m.call(PT + 'Subtract', [ptr['v'], ptr['p'], ptr['q']])
                    want = toy.addn(idx['p'], toy.negn(idx['q']))
                elif op == 'Double':
                    r = m.call(PT + 'Double', [ptr['v'], ptr['p']])
                    want = toy.addn(idx['p'], idx['p'])
                elif op == 'Negate':
                    r = m.call(PT + 'Negate', [ptr['v'], ptr['p']])
                    want = toy.negn(idx['p'])
                sub.note_machine(m)
                valid, k = index_of(alg, toy, ptr['v'].obj)
                ctx.check(r.same(ptr['v']), 'returns-receiver')
                ctx.check(tm.eq(point_get(prog, ptr['v'].obj, 'isValid'), True, 0), 'result-flagged-valid')
                ctx.check(valid, 'bv:result-on-curve-or-identity')
                ctx.check(tm.eq(k, want, W), 'bv:result=group-law')
                if part['v'] not in [part[n] for n in names[1:]]:
                    # the result as seen through a public encoder does not depend on what the receiver object was used for before
                    cb = m.slice_elems(m.call(PT + 'CompressedBytes', [ptr['v']]))
                    if ctx.branch(tm.eq(want, 0, W)) if isinstance(want, tm.T) else (want == 0):
                        ctx.check(len(cb) == 1 and tm.eq(cb[0], 0, 8), 'bv:result-encodes-as-the-identity')
                    else:
                        yb = tm.extract(toy.Y(want), 0, 0) if isinstance(toy.Y(want), tm.T) else toy.Y(want) & 1
                        exp = [tm.bv('add', tm.zext(yb, 8), 2, 8) if isinstance(yb, tm.T) else 2 + yb] + T.be32(toy.X(want))
                        ctx.check(len(cb) == 33 and tm.eq(cat_bytes(cb), cat_bytes(exp), 264), 'bv:CompressedBytes(result)=encoding-of-the-group-law-result')
                for n in names[1:]:
                    if part[n] != part['v']:
                        _, kn = index_of(alg, toy, ptr[n].obj)
                        ctx.check(tm.eq(kn, idx[n], W), 'bv:operand-unchanged')
            lbl = 'law/F_%d/%s[%s]%s' % (toy.p, op, part_label(part), '' if k1 is None else '@P=%dG%s' % (k1, '' if k2 is None else ',Q=%dG' % k2))
            sub.explore(lbl, h, mode='bv', timeout=300)
        return task
    if not only or 'law' in only:
        toys = [(43, 31)] if not chk.thorough else [(43, 31), (163, 139)]
        for (p, n) in toys:
            toy = T.get_toy(p, n)
            for part in partitions(['v', 'p', 'q']):
                for a in range(n):
                    tasks.append(('law', t_law(toy, 'Add', a, None if part['p'] != part['q'] else a, part)))
                    tasks.append(('law', t_law(toy, 'Subtract', a, None if part['p'] != part['q'] else a, part)))
            for part in partitions(['v', 'p']):
                for a in range(n):
                    tasks.append(('law', t_law(toy, 'Double', a, None, part)))
                    tasks.append(('law', t_law(toy, 'Negate', a, None, part)))
        chk.bounds.append('Add/Subtract/Double/Negate on toy curves %s: every pair of group elements (identity, P=Q, P=-Q included; P by case split, Q symbolic), canonical representatives '
                          '(all other representatives by the homogeneity identities), arbitrary prior receiver content, alias partitions of receiver/operands; oracle = the group Z/n\' via x/y tables of the toy curve' % toys)

    # ------------------------------------------------------------------ 3. representative independence of predicates and encoders
    def t_rep(toy, k):
        def task(sub):
            def h(ctx):
                m, alg = toy_machine(ctx, toy)
                l1, l2 = tm.var('lam1', W), tm.var('lam2', W)
                for l in (l1, l2):
                    ctx.assume(tm.band(tm.bnot(tm.eq(l, 0, W)), tm.ult(l, toy.p, W)))
                k2 = tm.var('k2', W)
                ctx.assume(tm.ult(k2, toy.n, W))
                A = X.Ptr(toy_point(m, alg, toy, 'A', k, l1), ())
                B = X.Ptr(toy_point(m, alg, toy, 'B', k2, l2), ())
                eq = m.call(PT + 'Equal', [A, B])
                ctx.check(tm.eq(eq, tm.ite(tm.eq(k2, k, W), 1, 0, 64), 64), 'bv:Equal-iff-same-group-element')
                ctx.check(tm.eq(m.call(PT + 'IsIdentity', [A]), 1 if k == 0 else 0, 64), 'bv:IsIdentity')
                # every predicate is a function of the abstract point -- the identity included, whose representatives are (0 : c : 0)
                ya, yb = m.call(PT + 'IsYOdd', [A]), m.call(PT + 'IsYOdd', [B])
                ctx.check(tm.implies(tm.eq(k2, k, W), tm.eq(ya, yb, 64)), 'bv:IsYOdd-agrees-on-representatives-of-the-same-point')
                if k != 0:
                    x, y = toy.mult[k]
                    ctx.check(tm.eq(m.call(PT + 'IsYOdd', [A]), y & 1, 64), 'bv:IsYOdd-depends-only-on-the-point')
                    ub = m.slice_elems(m.call(PT + 'UncompressedBytes', [A]))
                    ctx.check(len(ub) == 65 and tm.eq(cat_bytes(ub), cat_bytes([4] + T.be32(x) + T.be32(y)), 520), 'bv:UncompressedBytes')
                    cb = m.slice_elems(m.call(PT + 'CompressedBytes', [A]))
                    ctx.check(len(cb) == 33 and tm.eq(cat_bytes(cb), cat_bytes([2 + (y & 1)] + T.be32(x)), 264), 'bv:CompressedBytes')
                    xb, err = m.call(PT + 'XBytes', [A])
                    ctx.check(err is None and tm.eq(cat_bytes(m.slice_elems(xb)), cat_bytes(T.be32(x)), 256), 'bv:XBytes')
                else:
                    ub = m.slice_elems(m.call(PT + 'UncompressedBytes', [A]))
                    cb = m.slice_elems(m.call(PT + 'CompressedBytes', [A]))
                    ctx.check(ub == [0] and cb == [0], 'identity-encodes-as-0x00')
                    xb, err = m.call(PT + 'XBytes', [A])
                    ctx.check(err is not None, 'XBytes-of-identity-is-an-error')
                # conditional negate / select
                ctrl = tm.var('ctrl', 64)
                R = X.Ptr(toy_point(m, alg, toy, 'R', tm.var('k3', W), tm.var('lam3', W)), ())
                m.call(PT + 'ConditionalNegate', [R, A, ctrl])
                _, kr = index_of(alg, toy, R.obj)
                ctx.check(tm.eq(kr, tm.ite(tm.eq(ctrl, 0, 64), k, toy.negn(k), W), W), 'bv:ConditionalNegate')
                m.call(PT + 'ConditionalSelect', [R, A, B, ctrl])
                _, kr = index_of(alg, toy, R.obj)
                ctx.check(tm.eq(kr, tm.ite(tm.eq(ctrl, 0, 64), k, k2, W), W), 'bv:ConditionalSelect')
                sub.note_machine(m)
            sub.explore('rep/F_%d/P=%dG' % (toy.p, k), h, mode='bv', timeout=300)
        return task
    if not only or 'rep' in only:
        toy = T.get_toy(43, 31)
        for k in range(toy.n):
            tasks.append(('rep', t_rep(toy, k)))
        chk.bounds.append('Equal / IsIdentity / IsYOdd / encoders / ConditionalNegate / ConditionalSelect on F_43: every group element, arbitrary projective scalings')

    # ------------------------------------------------------------------ 4. zero-value operand panics
    def t_zero(sub):
        for fn, nargs in (('Add', 2), ('Double', 1), ('Subtract', 2), ('Negate', 1), ('Equal', 1), ('IsIdentity', 0), ('Set', 1), ('IsYOdd', 0)):
            for bad in range(max(nargs, 1)):
                def h(ctx, fn=fn, nargs=nargs, bad=bad):
                    toy = T.get_toy(43, 31)
                    m, alg = toy_machine(ctx, toy)
                    good = lambda nm: X.Ptr(toy_point(m, alg, toy, nm, 1, 1), ())
                    zero = X.Ptr(m.new_obj(prog.tid_by_str[MOD + '.Point'], label='zero Point'), ())
                    if fn in ('IsIdentity', 'IsYOdd'):
                        args = [zero]
                    elif fn == 'Equal':
                        args = [zero, good('b')] if bad == 0 else [good('a'), zero]
                    else:
                        ops = [good('o%d' % i) for i in range(nargs)]
                        ops[bad] = zero
                        args = [good('recv')] + ops
                    try:
                        m.call(PT + fn, args)
                    except X.GoPanic:
                        return 'panic'
                    ctx.check(False, 'zero-value-operand-must-panic')
                sub.explore('zero/%s[operand%d]' % (fn, bad), h, mode='bv', allow_panic=lambda p: True)
    if not only or 'zero' in only:
        tasks.append(('zero', t_zero))

    # ------------------------------------------------------------------ 5. package constants (ground)
    def t_consts(sub):
        def h(ctx):
            m = new_machine(prog, ctx, gl, value_model=True)
            def val(name):
                t = m.load(m.load(m.global_ptr(ROOT + name)))
                return sum(int(x) << (64 * i) for i, x in enumerate(t[1]))
            ctx.check(val('feB3') == 21, 'feB3=3b=21')
            ctx.check(val('feB') == 7, 'feB=7')
            ctx.check(val('feGX') == 0x79be667ef9dcbbac55a06295ce870b07029bfcdb2dce28d959f2815b16f81798, 'feGX=SEC2-Gx')
            ctx.check(val('feGY') == 0x483ada7726a3c4655da4fbfc0e1108a8fd17b448a68554199c47d08ffb10d4b8, 'feGY=SEC2-Gy')
        sub.explore('const/curve-constants', h)
    tasks.append(('consts', t_consts))

    chk.log('%d tasks' % len(tasks))
    return tasks


if __name__ == '__main__':
    from .common import run_main
    run_main(main)
