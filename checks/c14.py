"""C14 BIP-340 signing is the specified function of (key, aux randomness, message)."""
import os
from .common import Check, load_prog, load_globals, new_machine, tm, X, MOD, sym_bytes, cat_bytes
from . import stubs, toy as T
from .c07 import TOYS_QUICK, TOYS_THOROUGH
from .schnorr_common import BTC, W, tagged, spec_verify, spec_sign, y_even, snapshot, unchanged

SSK = '(*' + MOD + '/secec/bitcoin.SchnorrPrivateKey).'
SPK = '(*' + MOD + '/secec/bitcoin.SchnorrPublicKey).'


SPUB_T = MOD + '/secec/bitcoin.SchnorrPublicKey'
SPRIV_T = MOD + '/secec/bitcoin.SchnorrPrivateKey'


def new_schnorr_private_key(m, toy, dprime):
    """a SchnorrPrivateKey for raw scalar d' in [1,n'), built by the real constructors"""
    return m.call(BTC + 'NewSchnorrPrivateKeyFromECDSA', [T.new_private_key(m, dprime)])


def main():
    chk = Check('C14')
    prog = load_prog()
    gl = load_globals(prog)
    only = os.environ.get('VERIF_ONLY', '')
    chk.summaries.update(T.CONTRACT_SUMMARY)
    chk.stubs += stubs.STUB_NOTES
    toys = TOYS_THOROUGH if chk.thorough else TOYS_QUICK
    tasks = []

    def mk(ctx, toy):
        stubs.NARROW['on'] = True
        m = new_machine(prog, ctx, gl, value_model=True)
        T.install(m, toy)
        stubs.install_hash_stubs(m)
        return m

    def t_sign(toy, ML, via_reader, chunk=None, fail_at=None):
        def task(sub):
            def h(ctx):
                m = mk(ctx, toy)
                dp = tm.var('dprime', W)
                ctx.assume(tm.band(tm.bnot(tm.eq(dp, 0, W)), tm.ult(dp, toy.n, W)))
                sk = new_schnorr_private_key(m, toy, dp)
                snap = snapshot(m, sk)
                msg = sym_bytes('m', ML)
                aux = sym_bytes('aux', 32)
                if via_reader:
                    rd = stubs.ScriptedReader(aux + sym_bytes('more', 16), chunk=chunk, fail_at=fail_at)
                    sig, err = m.call(SSK + 'Sign', [sk, stubs.reader_iface(rd), m.new_byte_slice(msg, 'msg'), None])
                else:
                    ao = m.new_obj(None, tree=list(aux), label='aux')
                    sig, err = m.call(BTC + 'signSchnorr', [X.Ptr(ao, ()), sk, m.new_byte_slice(msg, 'msg')])
                sub.note_machine(m)
                fail, want, pc = spec_sign(toy, dp, aux, msg)
                ctx.check(unchanged(m, snap), 'bv:key-object-unchanged-by-signing')
                if via_reader and fail_at is not None and fail_at < 32:
                    ctx.check(err is not None and (sig is None or sig.is_nil()), 'read-error-aborts-with-no-signature')
                    return 'readerr'
                if via_reader:
                    ctx.check(rd.pos == 32 or err is not None, 'reads-exactly-32-aux-bytes')
                if err is not None:
                    ctx.check(fail, "bv:error-only-when-k'=0")
                    ctx.check(sig is None or sig.is_nil(), 'no-signature-on-error')
                    return 'kzero'
                ctx.check(tm.bnot(fail), "bv:k'=0-must-fail")
                sb = m.slice_elems(sig)
                ctx.check(len(sb) == 64 and tm.eq(cat_bytes(sb), cat_bytes(want), 512), 'bv:signature=BIP340-Sign(d,aux,m)')
                return 'ok'
            lbl = 'toy(%d,%d)/%s@msglen%d%s' % (toy.p, toy.n, 'Sign' if via_reader else 'signSchnorr', ML,
                                              '' if not via_reader else '[chunk=%s,fail=%s]' % (chunk, fail_at))
            paths = sub.explore(lbl, h, mode='bv', timeout=300)
            if not via_reader:
                sub.add(lbl + '/witness', [], {'ok', 'kzero'} <= {p.value for p in paths}, meta={'v': sorted(str(p.value) for p in paths)})
        return task
    if not only or 'sign' in only:
        for (p, n) in toys:
            toy = T.get_toy(p, n)
            for ML in (0, 1, 32, 33, 64):
                tasks.append(('sign', t_sign(toy, ML, False)))
        toy = T.get_toy(*toys[0])
        tasks.append(('sign-reader', t_sign(toy, 32, True)))
        tasks.append(('sign-reader', t_sign(toy, 32, True, chunk=1)))
        for j in (0, 1, 31, 32) if not chk.thorough else range(0, 34):
            tasks.append(('sign-reader', t_sign(toy, 32, True, chunk=5, fail_at=j)))
        chk.bounds.append('signSchnorr / Sign: toy curves %s; all d\' in [1,n\') (odd and even y), all aux, message lengths {0,1,32,33,64}; '
                          'hashes are uninterpreted functions of exactly the specified inputs' % toys)

    # ---- specification lemma, split over d': every BIP-340 signature verifies
    def t_lemma(toy, dp, ML):
        def task(sub):
            def h(ctx):
                stubs.NARROW['on'] = True
                msg = sym_bytes('m', ML)
                aux = sym_bytes('aux', 32)
                fail, want, pc = spec_sign(toy, dp, aux, msg)
                ctx.assume(tm.bnot(fail))
                ctx.check(spec_verify(toy, pc['px'], msg, pc['rx'], pc['s']), 'bv:signature-verifies-under-x-only-key')
            sub.explore("toy(%d,%d)/spec-lemma-sign-verifies@d'=%d@msglen%d" % (toy.p, toy.n, dp, ML), h, mode='bv', timeout=300)
        return task
    if not only or 'lemma' in only:
        for (p, n) in (toys if chk.thorough else toys[:1]):
            for dp in range(1, n):
                tasks.append(('lemma', t_lemma(T.get_toy(p, n), dp, 1)))

    # ---- key pair derivation
    def t_from_ecdsa(toy):
        def task(sub):
            def h(ctx):
                m = mk(ctx, toy)
                dp = tm.var('dprime', W)
                ctx.assume(tm.band(tm.bnot(tm.eq(dp, 0, W)), tm.ult(dp, toy.n, W)))
                esk = T.new_private_key(m, dp)
                snap = snapshot(m, esk)
                sk = m.call(BTC + 'NewSchnorrPrivateKeyFromECDSA', [esk])
                sub.note_machine(m)
                d = tm.ite(y_even(toy, dp), dp, toy.negn(dp), W)
                ctx.check(tm.eq(m.toy_sval(T.fld(m, sk, SPRIV_T, 'dPrime')), dp, W), "bv:raw-scalar=d'")
                ctx.check(tm.eq(m.toy_sval(T.fld(m, sk, SPRIV_T, 'd')), d, W), "bv:signing-scalar=d'-or-n-d'-by-parity")
                pub = T.fld(m, sk, SPRIV_T, 'publicKey')
                ppt = m.toy_pget(T.fld(m, pub, SPUB_T, 'point'))
                ctx.check(tm.eq(ppt, d, W), 'bv:point=d*G')
                ctx.check(y_even(toy, ppt), 'bv:point-has-even-y')
                ctx.check(tm.eq(cat_bytes(m.slice_elems(T.fld(m, pub, SPUB_T, 'xBytes'))), cat_bytes(T.be32(toy.X(dp))), 256), 'bv:xBytes=x(P)')
                ctx.check(unchanged(m, snap), 'bv:ECDSA-key-unchanged')
                # separation: the new key shares no mutable memory with the ECDSA key
                shared = {o.id for o, _ in snap} & {o.id for o, _ in snapshot(m, sk)}
                ctx.check(not shared, 'no-shared-memory-with-the-ECDSA-key', )
            sub.explore('toy(%d,%d)/NewSchnorrPrivateKeyFromECDSA' % (toy.p, toy.n), h, mode='bv')
        return task

    def t_from_point(toy, via):
        def task(sub):
            def h(ctx):
                m = mk(ctx, toy)
                q = tm.var('q', W)
                ctx.assume(tm.ult(q, toy.n, W))
                if via == 'point':
                    pt = m.toy_newpt(q)
                    k, err = m.call(BTC + 'NewSchnorrPublicKeyFromPoint', [pt])
                else:
                    ctx.assume(tm.bnot(tm.eq(q, 0, W)))
                    k, err = m.call(BTC + 'NewSchnorrPublicKeyFromECDSA', [T.new_public_key(m, q)]), None
                sub.note_machine(m)
                if err is not None:
                    ctx.check(tm.eq(q, 0, W), 'bv:error-only-for-the-identity')
                    return 'err'
                ctx.check(tm.bnot(tm.eq(q, 0, W)), 'bv:identity-must-be-rejected')
                kt = [None, T.fld(m, k, SPUB_T, 'point'), T.fld(m, k, SPUB_T, 'xBytes')]
                e = tm.ite(y_even(toy, q), q, toy.negn(q), W)
                ctx.check(tm.eq(m.toy_pget(kt[1]), e, W), 'bv:exposes-the-even-y-point')
                ctx.check(tm.eq(cat_bytes(m.slice_elems(kt[2])), cat_bytes(T.be32(toy.X(q))), 256), 'bv:xBytes=x-coordinate')
                if via == 'point':
                    ctx.check(kt[1].obj is not pt.obj, 'point-is-copied')
                    ctx.check(tm.eq(m.toy_pget(pt), q, W), 'bv:argument-unchanged')
                return 'ok'
            sub.explore('toy(%d,%d)/NewSchnorrPublicKeyFrom%s' % (toy.p, toy.n, 'Point' if via == 'point' else 'ECDSA'), h, mode='bv')
        return task
    if not only or 'keys' in only:
        for (p, n) in toys:
            toy = T.get_toy(p, n)
            tasks.append(('from-ecdsa', t_from_ecdsa(toy)))
            tasks.append(('from-point', t_from_point(toy, 'point')))
            tasks.append(('from-ecdsa-pub', t_from_point(toy, 'ecdsa')))
        chk.bounds.append('NewSchnorrPrivateKeyFromECDSA / NewSchnorrPublicKeyFromPoint / ...FromECDSA: toy curves %s, all keys / all points incl. identity' % toys)
        chk.outside.append('messages longer than 64 bytes in the signing data-flow obligations (the message is an opaque hash input; the tagged-hash layout for every length 0..320 is C13 taggedhash/*)')

    # contracts this check's toy layer uses for routines named in the property's own file list: re-decided here (see common.include_dependency)
    from .common import include_dependency
    if not only or 'dep' in only:
        include_dependency(chk, tasks, 'C05', 'table lookup basemult key', 'signing computes d*G and k*G with ScalarBaseMult (toy layer: contract)')
        include_dependency(chk, tasks, 'C13', 'tagged', 'the aux / nonce / challenge hashes are schnorrTaggedHash of the listed inputs for a message of any length; the signing data-flow '
                           'obligations use messages of at most 64 bytes, the byte layout of the tagged hash for every length is decided here')
    chk.run_tasks(tasks)
    chk.discharge()
    chk.finish()


if __name__ == '__main__':
    from .common import run_main
    run_main(main)
