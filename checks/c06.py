"""C06 SEC 1 point decoding is strict and encoding is a bijection on curve points."""
import os
from .common import Check, load_prog, load_globals, new_machine, tm, X, MOD, N_ORDER, P_FIELD, sym_bytes, cat_bytes, cat_limbs, sym_limbs, point_tree, point_get
from . import models, ring as R

ROOT = MOD + '.'
PT = '(*' + MOD + '.Point).'
FE = '(*' + MOD + '/internal/field.Element).'
P = P_FIELD

mulU = models.mulmod_uf('mul_field')


def fmul(a, b):
    ca, cb = tm._conc(a), tm._conc(b)
    if ca == 1:
        return b
    if cb == 1:
        return a
    if ca == 0 or cb == 0:
        return 0
    return mulU(a, b, P)


def fadd(a, b):
    return tm.trunc(R.spec_addmod(tm.lift(a, 256), tm.lift(b, 256), P), 256)


def fneg(a):
    return tm.trunc(R.spec_negmod(tm.lift(a, 256), P), 256)


def curve_rhs(x):
    return fadd(fmul(fmul(x, x), x), 7)


def is_square(a):
    return tm.uf('is_square_p', [tm.lift(a, 256)], 0)


def sqrt_of(a):
    return tm.uf('sqrt_p', [tm.lift(a, 256)], 256)


def install_field_contracts(m):
    """value model for the fiat kernels with an uninterpreted (commutative, unital) field product; Sqrt and Invert
    replaced by their C01 contracts"""
    models.install_value_model(m, mul='uf', which=('field', 'scalar'))
    F = models.FIELD

    def ld(p):
        return cat_limbs(list(m.load(p)))

    def st(p, v):
        m.store(p, models.split_limbs(v))
    m.contracts[F + 'Mul'] = lambda m, a: st(a[0], fmul(ld(a[1]), ld(a[2])))
    m.contracts[F + 'Square'] = lambda m, a: st(a[0], fmul(ld(a[1]), ld(a[1])))

    def ev(p):
        return cat_limbs(list(m.load(p)[1]))

    def est(p, v):
        m.store(X.Ptr(p.obj, p.path + (1,)), models.split_limbs(v))

    def c_sqrt(m, a):
        A = ev(a[1])
        if not isinstance(A, tm.T):
            raise X.Unsupported("concrete sqrt")
        isq = is_square(A)
        est(a[0], tm.ite(isq, sqrt_of(A), 0, 256))
        return (a[0], tm.ite(isq, 1, 0, 64))
    m.contracts[FE + 'Sqrt'] = c_sqrt

    # method-level closed forms on the 256-bit value (discharged by C01 field/method/*): they make equal values
    # syntactically equal terms, which keeps the uninterpreted-product arguments comparable
    def c_iszero(m, a):
        return tm.ite(tm.eq(ev(a[0]), 0, 256), 1, 0, 64)
    m.contracts[FE + 'IsZero'] = c_iszero

    def c_equal(m, a):
        return tm.ite(tm.eq(ev(a[0]), ev(a[1]), 256), 1, 0, 64)
    m.contracts[FE + 'Equal'] = c_equal

    def c_isodd(m, a):
        v = ev(a[0])
        return tm.zext(tm.extract(v, 0, 0), 64) if isinstance(v, tm.T) else v & 1
    m.contracts[FE + 'IsOdd'] = c_isodd

    def c_condsel(m, a):
        est(a[0], tm.ite(tm.eq(a[3], 0, 64), ev(a[1]), ev(a[2]), 256))
        return a[0]
    m.contracts[FE + 'ConditionalSelect'] = c_condsel

    def c_condneg(m, a):
        v = ev(a[1])
        est(a[0], tm.ite(tm.eq(a[2], 0, 64), v, fneg(v), 256))
        return a[0]
    m.contracts[FE + 'ConditionalNegate'] = c_condneg

    def c_inv(m, a):
        A = ev(a[1])
        c = tm._conc(A)
        if c is not None:
            est(a[0], pow(c, P - 2, P))
        else:
            est(a[0], tm.uf('inv_p', [A], 256))
        return a[0]
    m.contracts[FE + 'Invert'] = c_inv


SUMMARY = {
    '(*field.Element).Sqrt': '(root, 1) if the argument is a square else (0, 0); root^2 = argument: discharged by C01 field/sqrt/*',
    '(*field.Element).Invert': 'x^(p-2): discharged by C01 field/chain/Invert',
    'field product': 'commutative uninterpreted function with unit 1 and absorbing 0 (C01 kernel contracts)',
    '(*field.Element).{IsZero,Equal,IsOdd,ConditionalSelect,ConditionalNegate}': 'closed forms on the value: discharged by C01 field/method/*',
}


def new_point(m, name, valid=None):
    """a Point object with arbitrary prior content (receiver pre-state)"""
    tree = point_tree(m, name, [[], sym_limbs(name + '_x')], [[], sym_limbs(name + '_y')], [[], sym_limbs(name + '_z')],
                      tm.boolvar(name + '_valid') if valid is None else valid, extra='any')
    return m.new_obj(None, tree=tree, label='Point:' + name)


def pt_state(o):
    """(x, y, z, isValid, extra bookkeeping fields...) of a Point object, fields located by name in the current tree's struct type"""
    from .common import cur_prog, point_extra_state
    prog = cur_prog()
    fx, fy, fz = [point_get(prog, o, f)[1] for f in ('x', 'y', 'z')]
    return (tm.lift(cat_limbs(list(fx)), 256) if any(isinstance(v, tm.T) for v in fx) else cat_limbs(list(fx)),
            cat_limbs(list(fy)), cat_limbs(list(fz)), point_get(prog, o, 'isValid'), tuple(point_extra_state(prog, o)))


def same_state(a, b):
    cs = [tm.eq(a[0], b[0], 256), tm.eq(a[1], b[1], 256), tm.eq(a[2], b[2], 256), tm.eq(a[3], b[3], 0)]
    for (n, va, w), (_, vb, _) in zip(a[4] if len(a) > 4 else (), b[4] if len(b) > 4 else ()):
        cs.append(tm.eq(va, vb, w))
    return tm.band_all(cs)


def sec1_spec(B):
    """SEC 1 decoding predicate over byte terms: returns (accept, kind, x, y) where y is the specified y"""
    L = len(B)
    if L == 1:
        return tm.eq(B[0], 0, 8), 'identity', None, None
    if L == 33:
        x = tm.lift(cat_bytes(B[1:33]), 256)
        yy = curve_rhs(x)
        pre_ok = tm.bor(tm.eq(B[0], 2, 8), tm.eq(B[0], 3, 8))
        acc = tm.band_all([pre_ok, tm.ult(x, P, 256), is_square(yy)])
        r = sqrt_of(yy)
        want_odd = tm.eq(tm.bv('and', B[0], 1, 8), 1, 8)
        r_odd = tm.eq(tm.extract(r, 0, 0), 1, 1)
        y = tm.ite(tm.eq(want_odd, r_odd, 0), r, fneg(r), 256)
        return acc, 'compressed', x, y
    if L == 65:
        x = tm.lift(cat_bytes(B[1:33]), 256)
        y = tm.lift(cat_bytes(B[33:65]), 256)
        acc = tm.band_all([tm.eq(B[0], 4, 8), tm.ult(x, P, 256), tm.ult(y, P, 256), tm.eq(fmul(y, y), curve_rhs(x), 256)])
        return acc, 'uncompressed', x, y
    return False, 'none', None, None


def _t_recover_factory(prog, gl):
    def mk(ctx):
        m = new_machine(prog, ctx, gl, value_model=True)
        install_field_contracts(m)
        return m

    def t_recover(sub):
        def h(ctx):
            m = mk(ctx)
            rl = sym_limbs('r')
            r = tm.lift(cat_limbs(rl), 256)
            ctx.assume(tm.ult(r, N_ORDER, 256))
            rid = tm.var('id', 8)
            sc = m.new_obj(None, tree=[[], list(rl)], label='xScalar')
            try:
                pt, err = m.call(ROOT + 'RecoverPoint', [X.Ptr(sc, ()), rid])
            except X.GoPanic:
                ctx.check(False, 'panic-branch-unreachable')
                return 'panic'
            sub.note_machine(m)
            hi = tm.eq(tm.bv('and', rid, 2, 8), 2, 8)
            xw = tm.bv('add', tm.zext(r, 258), tm.ite(hi, N_ORDER, 0, 258), 258)   # r + (id>>1)*n over the integers
            x = tm.trunc(xw, 256)
            yy = curve_rhs(x)
            ctx.assume(tm.implies(is_square(yy), tm.bnot(tm.eq(sqrt_of(yy), 0, 256))))
            ctx.assume(tm.ult(sqrt_of(yy), P, 256))
            spec = tm.band_all([tm.ult(rid, 4, 8), tm.ult(xw, P, 258), is_square(yy)])
            if err is None:
                ctx.check(spec, 'bv:accepted-implies-id<4,x=r+(id>>1)n<p,on-curve')
                st = pt_state(pt.obj)
                ctx.check(tm.band_all([tm.eq(st[0], x, 256), tm.eq(st[2], 1, 256), tm.eq(st[3], True, 0)]), 'bv:x-coordinate')
                ctx.check(tm.eq(tm.extract(tm.lift(st[1], 256), 0, 0), tm.extract(rid, 0, 0), 1), 'bv:y-parity=id&1')
                ctx.check(tm.eq(fmul(st[1], st[1]), yy, 256) if False else True, 'skip')
                return 'accept'
            ctx.check(tm.bnot(spec), 'bv:rejected-implies-not-spec')
            ctx.check(pt.is_nil(), 'no-object-on-error')
            return 'reject'
        paths = sub.explore('recover/RecoverPoint', h, mode='bv')
        sub.add('recover/RecoverPoint/witness', [], {p.value for p in paths} == {'accept', 'reject'})

    return t_recover


def add_recover_task(chk, prog, gl, tasks):
    chk.summaries.update(models.VALUE_MODEL_SUMMARY)
    chk.summaries.update(SUMMARY)
    tasks.append(('recover', _t_recover_factory(prog, gl)))
    b = 'RecoverPoint (real code, full width): all r in [0,n), all 256 values of the recovery id'
    if b not in chk.bounds:
        chk.bounds.append(b)


def main():
    chk = Check('C06')
    tasks = build(chk, os.environ.get('VERIF_ONLY', ''))
    from .common import include_ring_dependency
    include_ring_dependency(chk, tasks, 'C01', 'field', ['field_sqrt'], 'compressed decoding and RecoverPoint take the square root of x^3 + 7 with Element.Sqrt; the decode obligations use its contract (root iff square, zero otherwise), the real SqrtRatio / Sqrt code is re-decided here')
    only = os.environ.get('VERIF_ONLY', '')
    if not only or 'encshort' in only:
        from .common import include_dependency
        include_dependency(chk, tasks, 'C05', 'encshort', 'each point has exactly one encoding whatever computation produced it and whatever the result object held before: '
                           'the public encoders are run on the result of the fixed-base multiplications (coordinate level, toy curve) for an arbitrary prior receiver')
    chk.run_tasks(tasks)
    chk.discharge()
    chk.finish()


def build(chk, only=''):
    """append this check's tasks (restricted to the groups named in `only`) to a task list; also used by the checks that
    depend on this one's contracts (common.include_dependency)"""
    prog = load_prog()
    gl = load_globals(prog)
    chk.summaries.update(models.VALUE_MODEL_SUMMARY)
    chk.summaries.update(SUMMARY)
    chk.assumptions.append('no curve point has y = 0 (x^3 = -7 has no root mod p): sqrt(x^3+7) != 0 whenever it exists')
    tasks = []

    def mk(ctx):
        m = new_machine(prog, ctx, gl, value_model=True)
        install_field_contracts(m)
        return m

    def decode_task(fn, L):
        def task(sub):
            def h(ctx):
                m = mk(ctx)
                B = sym_bytes('B', L)
                recv = new_point(m, 'recv')
                pre = pt_state(recv)
                args = [m.new_byte_slice(B, 'src')]
                if fn == 'NewPointFromBytes':
                    r, err = m.call(ROOT + fn, args)
                else:
                    r, err = m.call(PT + fn, [X.Ptr(recv, ())] + args)
                sub.note_machine(m)
                acc, kind, x, y = sec1_spec(B)
                if fn == 'SetCompressedBytes' and kind != 'compressed':
                    acc = False
                if fn == 'SetUncompressedBytes' and kind != 'uncompressed':
                    acc = False
                if kind == 'compressed':
                    yy = curve_rhs(x)
                    ctx.assume(tm.implies(is_square(yy), tm.bnot(tm.eq(sqrt_of(yy), 0, 256))))
                    ctx.assume(tm.ult(sqrt_of(yy), P, 256))
                if err is None:
                    ctx.check(acc, 'bv:accepted-implies-SEC1')
                    o = r.obj
                    if fn != 'NewPointFromBytes':
                        ctx.check(r.same(X.Ptr(recv, ())), 'returns-receiver')
                    st = pt_state(o)
                    ctx.check(tm.eq(st[3], True, 0), 'result-is-valid')
                    if kind == 'identity':
                        ctx.check(tm.band_all([tm.eq(st[0], 0, 256), tm.eq(st[1], 1, 256), tm.eq(st[2], 0, 256)]), 'bv:identity=(0,1,0)')
                    elif kind in ('compressed', 'uncompressed'):
                        ctx.check(tm.band_all([tm.eq(st[0], x, 256), tm.eq(st[2], 1, 256)]), 'bv:x-and-z')
                        ctx.check(tm.eq(st[1], y, 256), 'bv:y-as-specified')
                        # encode(decode(B)) = B in the same format
                        enc = m.call(PT + ('CompressedBytes' if kind == 'compressed' else 'UncompressedBytes'), [r])
                        eb = m.slice_elems(enc)
                        ctx.check(len(eb) == L and tm.eq(cat_bytes(eb), cat_bytes(B), 8 * L), 'bv:encode-after-decode-is-identity')
                    return 'accept'
                ctx.check(tm.bnot(acc), 'bv:rejected-implies-not-SEC1')
                ctx.check(r.is_nil(), 'no-object-on-error')
                if fn != 'NewPointFromBytes':
                    ctx.check(same_state(pt_state(recv), pre), 'bv:receiver-unchanged-on-error')
                return 'reject'
            paths = sub.explore('decode/%s@len%d' % (fn, L), h, mode='bv')
            vals = {p.value for p in paths if p.outcome == 'ok'}
            can_accept = (L in (1, 33, 65) and fn in ('SetBytes', 'NewPointFromBytes')) or (L == 33 and fn == 'SetCompressedBytes') or (L == 65 and fn == 'SetUncompressedBytes')
            sub.add('decode/%s@len%d/witness' % (fn, L), [], ('accept' in vals) == can_accept and 'reject' in vals)
        return task
    if not only or 'decode' in only:
        for fn in ('SetBytes', 'SetCompressedBytes', 'SetUncompressedBytes', 'NewPointFromBytes'):
            for L in range(0, 67):
                tasks.append(('%s@%d' % (fn, L), decode_task(fn, L)))
        chk.bounds.append('SetBytes/SetCompressedBytes/SetUncompressedBytes/NewPointFromBytes: every input length 0..66, all byte contents (all 256 prefixes incl. hybrid 6/7), arbitrary receiver pre-state')

    def t_coords(sub):
        def h(ctx):
            m = mk(ctx)
            xb, yb = sym_bytes('X', 32), sym_bytes('Y', 32)
            ox, oy = m.new_obj(None, tree=list(xb)), m.new_obj(None, tree=list(yb))
            r, err = m.call(ROOT + 'NewPointFromCoords', [X.Ptr(ox, ()), X.Ptr(oy, ())])
            sub.note_machine(m)
            acc, _, x, y = sec1_spec([4] + xb + yb)
            if err is None:
                ctx.check(acc, 'bv:accepted-implies-on-curve-and-canonical')
                st = pt_state(r.obj)
                ctx.check(tm.band_all([tm.eq(st[0], x, 256), tm.eq(st[1], y, 256), tm.eq(st[2], 1, 256), tm.eq(st[3], True, 0)]), 'bv:point=(x,y,1)')
                return 'accept'
            ctx.check(tm.bnot(acc), 'bv:rejected-implies-invalid')
            ctx.check(r.is_nil(), 'no-object-on-error')
            return 'reject'
        paths = sub.explore('decode/NewPointFromCoords', h, mode='bv')
        sub.add('decode/NewPointFromCoords/witness', [], {p.value for p in paths} == {'accept', 'reject'})
    if not only or 'coords' in only:
        tasks.append(('coords', t_coords))

    if not only or 'recover' in only:
        add_recover_task(chk, prog, gl, tasks)

    def t_split(sub):
        def h(ctx):
            m = mk(ctx)
            B = sym_bytes('B', 65)
            xb, odd = m.call(ROOT + 'SplitUncompressedPoint', [m.new_byte_slice(B, 'pt')])
            ctx.check(tm.eq(cat_bytes(m.slice_elems(xb)), cat_bytes(B[1:33]), 256), 'bv:x-bytes')
            ctx.check(tm.eq(odd, tm.zext(tm.extract(B[64], 0, 0), 64), 64), 'bv:y-parity')
            sub.note_machine(m)
        sub.explore('split/SplitUncompressedPoint', h, mode='bv')
        for L in (0, 1, 33, 64, 66):
            def h2(ctx, L=L):
                m = mk(ctx)
                try:
                    m.call(ROOT + 'SplitUncompressedPoint', [m.new_byte_slice(sym_bytes('B', L), 'pt')])
                except X.GoPanic:
                    return 'panic'
                ctx.check(False, 'wrong-length-must-panic')
            sub.explore('split/SplitUncompressedPoint@len%d' % L, h2, mode='bv', allow_panic=lambda p: True)
    if not only or 'split' in only:
        tasks.append(('split', t_split))

    return tasks


if __name__ == '__main__':
    from .common import run_main
    run_main(main)
