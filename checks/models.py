"""Contracts (summaries) substituted for callees in the higher layers.

value model ("R = 1"): the four multiplicative fiat kernels and SetOne are replaced by their
contracts *transported along the ring isomorphism* phi(x) = x * R^-1 mod m.  phi is a bijection of
[0,m) fixing 0 that commutes with Add/Sub/Opp/Selectznz/Nonzero/limb equality, so every limb array
of Montgomery type can be read as holding the plain value.  The contracts are discharged by the
C01/C02 kernel obligations (range + Montgomery identity); code that looks at Montgomery limbs in any
other way is covered by the C01/C02 method-level obligations, which keep the kernels opaque.
"""
from .common import tm, X, MOD, P_FIELD, N_ORDER, cat_limbs
from . import ring as R

FIELD = MOD + '/internal/fiat/secp256k1montgomery.'
SCALAR = MOD + '/internal/fiat/secp256k1montgomeryscalar.'


_PRE_PROVEN = set()


def split_limbs(v, n=4):
    if isinstance(v, tm.T):
        return [tm.extract(v, 64 * i + 63, 64 * i) for i in range(n)]
    return [(v >> (64 * i)) & (2 ** 64 - 1) for i in range(n)]


def _ld(m, p):
    return cat_limbs(list(m.load(p)))


def _st(m, p, v):
    m.store(p, split_limbs(v))


def mulmod_exact(A, B, mod):
    if not isinstance(A, tm.T) and not isinstance(B, tm.T):
        return A * B % mod
    P = tm.bv('mul', tm.zext(A, 512) if isinstance(A, tm.T) else A, tm.zext(B, 512) if isinstance(B, tm.T) else B, 512)
    return tm.trunc(tm.bv('urem', P, mod, 512), 256)


def comm_uf(name, a, b, w=256):
    """commutative uninterpreted function: f(min(a,b), max(a,b)) -- commutativity is semantic, not an accident of
    term ordering"""
    a, b = tm.lift(a, w), tm.lift(b, w)
    if a is b:
        return tm.uf(name, [a, a], w)
    le = tm.ule(a, b, w)
    lo = tm.ite(le, a, b, w)
    hi = tm.ite(le, b, a, w)
    return tm.uf(name, [tm.lift(lo, w), tm.lift(hi, w)], w)


def mulmod_uf(name):
    def f(A, B, mod):
        if not isinstance(A, tm.T) and not isinstance(B, tm.T):
            return A * B % mod
        return comm_uf(name, A, B)
    return f


def install_value_model(m, mul='exact', which=('field', 'scalar'), check_pre=True, range_axioms=False):
    """mul: 'exact' (512-bit urem; only for concrete/narrow data), 'uf' (uninterpreted, commutative)"""
    for w in which:
        pre = FIELD if w == 'field' else SCALAR
        mod = P_FIELD if w == 'field' else N_ORDER
        mm = mulmod_exact if mul == 'exact' else mulmod_uf('mul_' + w)

        def c_tomont(m, a, mod=mod):
            v = _ld(m, a[1])
            if check_pre and isinstance(v, tm.T):
                g = tm.ult(v, mod, 256)
                if isinstance(g, tm.T) and g.id not in _PRE_PROVEN:
                    # holds unconditionally? (decided once per distinct term by the in-process solver)
                    if m.ctx.ex.psolver.check([tm.bnot(g)]) == 'unsat':
                        _PRE_PROVEN.add(g.id)
                    else:
                        m.ctx.check(g, 'pre:ToMontgomery-arg<m')
                elif not isinstance(g, tm.T) and not g:
                    m.ctx.check(False, 'pre:ToMontgomery-arg<m')
            elif check_pre and v >= mod:
                raise X.GoPanic("contract violation: ToMontgomery argument >= m")
            _st(m, a[0], v)

        def c_frommont(m, a):
            _st(m, a[0], _ld(m, a[1]))

        def c_setone(m, a):
            _st(m, a[0], 1)

        def rng(m, v, mod):
            # kernel range contract (C01/C02 kernel/*/range): the product is a reduced residue
            if range_axioms and isinstance(v, tm.T):
                m.ctx.assume(tm.ult(v, mod, 256))
            return v

        def c_mul(m, a, mod=mod, mm=mm):
            _st(m, a[0], rng(m, mm(_ld(m, a[1]), _ld(m, a[2]), mod), mod))

        def c_sq(m, a, mod=mod, mm=mm):
            v = _ld(m, a[1])
            _st(m, a[0], rng(m, mm(v, v, mod), mod))

        def c_add(m, a, mod=mod):
            _st(m, a[0], tm.trunc(R.spec_addmod(tm.lift(_ld(m, a[1]), 256), tm.lift(_ld(m, a[2]), 256), mod), 256))

        def c_sub(m, a, mod=mod):
            _st(m, a[0], tm.trunc(R.spec_submod(tm.lift(_ld(m, a[1]), 256), tm.lift(_ld(m, a[2]), 256), mod), 256))

        def c_opp(m, a, mod=mod):
            _st(m, a[0], tm.trunc(R.spec_negmod(tm.lift(_ld(m, a[1]), 256), mod), 256))

        m.contracts[pre + 'ToMontgomery'] = c_tomont
        m.contracts[pre + 'FromMontgomery'] = c_frommont
        m.contracts[pre + 'SetOne'] = c_setone
        m.contracts[pre + 'Mul'] = c_mul
        m.contracts[pre + 'Square'] = c_sq
        m.contracts[pre + 'Add'] = c_add
        m.contracts[pre + 'Sub'] = c_sub
        m.contracts[pre + 'Opp'] = c_opp


VALUE_MODEL_SUMMARY = {
    'fiat.{Add,Sub,Opp}': 'closed form (a +/- b) mod m on limb arrays; discharged by C01/C02 kernel/{Add,Sub,Opp}/{range,value}',
    'fiat.{Mul,Square,ToMontgomery,FromMontgomery,SetOne}': 'R=1 value model (ring isomorphism x -> x*R^-1 mod m); discharged by C01/C02 kernel/*/{range,montgomery-identity}',
}
