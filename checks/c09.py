"""C09 Signing nonces are never reused, biased or RNG-trusting; RFC 6979 mode is exact."""
import os
from .common import Check, load_prog, load_globals, new_machine, tm, X, MOD, N_ORDER, sym_bytes, cat_bytes, cat_limbs, limbs_of
from . import models, stubs

SECEC = MOD + '/secec.'


def scalar_obj(m, value_limbs):
    return m.new_obj(None, tree=[[], list(value_limbs)], label='Scalar')


def scalar_val(m, p):
    return tm.lift(cat_limbs(list(m.load(p)[1])), 256)


def in_range(c):
    """0 < c < n for a 256-bit term"""
    return tm.band(tm.bnot(tm.eq(c, 0, 256)), tm.ult(c, N_ORDER, 256))


def main():
    chk = Check('C09')
    tasks = build(chk, os.environ.get('VERIF_ONLY', ''))
    chk.run_tasks(tasks)
    chk.discharge()
    chk.finish()


def build(chk, only=''):
    """append this check's tasks (restricted to the groups named in `only`) to a task list; also used by the checks that
    depend on this one's contracts (common.include_dependency)"""
    prog = load_prog()
    gl = load_globals(prog)
    chk.summaries.update(models.VALUE_MODEL_SUMMARY)
    chk.stubs += stubs.STUB_NOTES
    tasks = []

    def mk(ctx, log=None):
        m = new_machine(prog, ctx, gl, value_model=True)
        models.install_value_model(m, mul='uf')
        stubs.install_hash_stubs(m, log)
        stubs.install_crypto_hash(m)
        return m

    # ------------------------------------------------------------------ rejection sampler
    NCAND = 9  # one more than the retry limit, so "at most 8 are consumed" is observable

    def t_sampler(label, chunk, fail_at, with_data):
        def task(sub):
            def h(ctx):
                m = mk(ctx)
                cands = [sym_bytes('c%d' % i, 32) for i in range(NCAND)]
                stream = [b for c in cands for b in c]
                rd = stubs.ScriptedReader(stream, chunk=chunk, fail_at=fail_at, with_data=with_data)
                s, err = m.call(SECEC + 'sampleRandomScalar', [stubs.reader_iface(rd)])
                sub.note_machine(m)
                C = [tm.lift(cat_bytes(c), 256) for c in cands]
                k = rd.pos // 32  # candidates fully consumed
                conds = []
                if err is None:
                    # returned scalar is exactly the last fully read candidate, that candidate is in [1,n),
                    # every earlier one is not, and never more than 8 are drawn
                    conds.append(rd.pos % 32 == 0 and 1 <= k <= 8)
                    if 1 <= k <= NCAND:
                        conds.append(in_range(C[k - 1]))
                        conds.append(tm.eq(scalar_val(m, s), C[k - 1], 256))  # the candidate itself, not a reduction
                        for j in range(k - 1):
                            conds.append(tm.bnot(in_range(C[j])))
                    if fail_at is not None:
                        conds.append(rd.pos <= fail_at)
                    ctx.check(tm.band_all(conds), 'bv:returns-first-in-range-candidate-unreduced')
                    return ('ok', k)
                conds.append(s.is_nil())
                if fail_at is not None and rd.pos >= fail_at:
                    # reader failed: every complete candidate before the failure was out of range
                    for j in range(min(k, 8)):
                        conds.append(tm.bnot(in_range(C[j])))
                    ctx.check(tm.band_all(conds), 'bv:reader-error-propagates-after-rejecting-complete-candidates')
                    return ('readerr', k)
                conds.append(k == 8)
                for j in range(8):
                    conds.append(tm.bnot(in_range(C[j])))
                ctx.check(tm.band_all(conds), 'bv:gives-up-after-exactly-8-out-of-range-candidates')
                return ('exhausted', k)
            paths = sub.explore('sampler/%s' % label, h, mode='bv')
            kinds = {p.value[0] for p in paths if p.outcome == 'ok'}
            want = {'ok', 'exhausted'} if fail_at is None else ({'ok', 'readerr'} if fail_at >= 32 else {'readerr'})
            sub.add('sampler/%s/witness-outcomes' % label, [], kinds == want, meta={'kinds': sorted(kinds)})
        return task
    if not only or 'sampler' in only:
        tasks.append(('sampler/full', t_sampler('full-reads', None, None, False)))
        for ch in ((1, 7, 31, 33) if chk.thorough else (1, 31)):
            tasks.append(('sampler/chunk%d' % ch, t_sampler('chunk%d' % ch, ch, None, False)))
        fails = list(range(0, 33)) + [40, 64, 255, 256] if chk.thorough else [0, 1, 31, 32, 33, 64]
        for j in fails:
            tasks.append(('sampler/fail%d' % j, t_sampler('fail-after-%d' % j, None, j, False)))
            tasks.append(('sampler/fail%d+data' % j, t_sampler('fail-after-%d-with-data' % j, 5 if j % 2 else None, j, True)))
        chk.bounds.append('sampleRandomScalar: 9 symbolic 32-byte candidates (all 2^2304 streams), readers: whole reads, chunked (%s bytes), failing after j bytes for j in %s (error alone / error together with data)' % (
            '1,7,31,33' if chk.thorough else '1,31', '0..32,40,64,255,256' if chk.thorough else '0,1,31,32,33,64'))

    # ------------------------------------------------------------------ hedged generator (mitigateDebianAndSony)
    def priv_key(m, dl):
        sc = scalar_obj(m, dl)
        return X.Ptr(m.new_obj(None, tree=[[], X.Ptr(sc, ()), X.NILPTR], label='PrivateKey'), ())

    def t_hedge(label, chunk, fail_at):
        def task(sub):
            def h(ctx):
                log = []
                m = mk(ctx, log)
                d = [tm.var('d_%d' % i, 64) for i in range(4)]
                e = [tm.var('e_%d' % i, 64) for i in range(4)]
                D, E = tm.lift(cat_limbs(d), 256), tm.lift(cat_limbs(e), 256)
                ctx.assume(in_range(D))
                ctx.assume(tm.ult(E, N_ORDER, 256))
                ent = sym_bytes('ent', 40)
                rd = stubs.ScriptedReader(ent, chunk=chunk, fail_at=fail_at)
                k = priv_key(m, d)
                es = X.Ptr(scalar_obj(m, e), ())
                out, err = m.call(SECEC + 'mitigateDebianAndSony', [stubs.reader_iface(rd), 'ECDSA-Sign', k, es])
                sub.note_machine(m)
                if err is not None:
                    ctx.check(fail_at is not None and fail_at < 32, 'error-only-when-reader-fails-before-32-bytes')
                    ctx.check(out is None, 'no-generator-on-error')
                    return 'err'
                ctx.check(fail_at is None or fail_at >= 32, 'short-entropy-must-abort')
                ctx.check(rd.pos == 32, 'consumes-exactly-32-entropy-bytes')
                th = m.load(out.val)[0] if isinstance(out.val, X.Ptr) else out.val
                ctx.check(isinstance(th, stubs.TupleHashXOF), 'generator-is-the-TupleHash-XOF')
                if isinstance(th, stubs.TupleHashXOF):
                    ctx.check(bytes(th.cust) == b'Honorary Debian/Sony RNG mitigation:ECDSA-Sign', 'domain-separation-string')
                    ctx.check(len(th.tuple) == 3 and [len(t) for t in th.tuple] == [32, 32, 32], 'absorbs-exactly-three-32-byte-strings')
                    if len(th.tuple) == 3:
                        ctx.check(tm.eq(cat_bytes(th.tuple[0]), D, 256), 'bv:tuple[0]=private-scalar-bytes')
                        ctx.check(tm.eq(cat_bytes(th.tuple[1]), cat_bytes(ent[:32]), 256), 'bv:tuple[1]=the-32-entropy-bytes')
                        ctx.check(tm.eq(cat_bytes(th.tuple[2]), E, 256), 'bv:tuple[2]=e-bytes')
                return 'ok'
            paths = sub.explore('hedge/%s' % label, h, mode='bv')
            sub.add('hedge/%s/witness' % label, [], {p.value for p in paths} == ({'ok'} if (fail_at is None or fail_at >= 32) else {'err'}))
        return task
    if not only or 'hedge' in only:
        tasks.append(('hedge/full', t_hedge('full', None, None)))
        tasks.append(('hedge/1byte', t_hedge('one-byte-reads', 1, None)))
        for j in (range(0, 34) if chk.thorough else (0, 1, 16, 31, 32)):
            tasks.append(('hedge/fail%d' % j, t_hedge('fail-after-%d' % j, 7, j)))

        def t_selector(sub):
            def h(ctx):
                m = mk(ctx)
                d = [tm.var('d_%d' % i, 64) for i in range(4)]
                e = [tm.var('e_%d' % i, 64) for i in range(4)]
                ctx.assume(in_range(tm.lift(cat_limbs(d), 256)))
                ctx.assume(tm.ult(tm.lift(cat_limbs(e), 256), N_ORDER, 256))
                sentinel = m.call(SECEC + 'RFC6979SHA256', [])
                out, err = m.call(SECEC + 'mitigateDebianAndSony', [sentinel, 'ECDSA-Sign', priv_key(m, d), X.Ptr(scalar_obj(m, e), ())])
                sub.note_machine(m)
                ctx.check(err is None and out is not None and out.tname.endswith('secec.drbgRFC6979'), 'sentinel-selects-RFC6979-generator')
                # nil selects crypto/rand.Reader
                csr = stubs.ScriptedReader(sym_bytes('cs', 64), name='csrand')
                m.global_init['crypto/rand.Reader'] = lambda mm: stubs.reader_iface(csr)
                out, err = m.call(SECEC + 'mitigateDebianAndSony', [None, 'ECDSA-Sign', priv_key(m, d), X.Ptr(scalar_obj(m, e), ())])
                ctx.check(err is None and csr.pos == 32, 'nil-reader-draws-32-bytes-from-crypto/rand')
            sub.explore('hedge/selector', h, mode='bv')
        tasks.append(('hedge/selector', t_selector))
        chk.bounds.append('mitigateDebianAndSony: all d in [1,n), e in [0,n), all 32-byte entropy strings; readers whole/1-byte/failing after j bytes')
        chk.assumptions.append('"changes whenever an input changes" additionally assumes TupleHashXOF128 is collision-free on distinct tuples')

    # ------------------------------------------------------------------ RFC 6979 section 3.2 (HMAC-SHA-256 as UF)
    def t_rfc6979(nreads):
        def task(sub):
            def h(ctx):
                m = mk(ctx)
                x = [tm.var('x_%d' % i, 64) for i in range(4)]
                e = [tm.var('e_%d' % i, 64) for i in range(4)]
                Xv, Ev = tm.lift(cat_limbs(x), 256), tm.lift(cat_limbs(e), 256)
                ctx.assume(in_range(Xv))
                ctx.assume(tm.ult(Ev, N_ORDER, 256))
                xb, eb = stubs.bytes_of_term(Xv, 32), stubs.bytes_of_term(Ev, 32)
                drbg = m.call(SECEC + 'newDrbgRFC6979', [X.Ptr(scalar_obj(m, x), ()), X.Ptr(scalar_obj(m, e), ())])

                def HM(key, parts):
                    return stubs.H('hmac_sha256_key%d' % len(key), [key] + parts)
                V = [1] * 32
                K = [0] * 32
                K = HM(K, [V, [0], xb, eb])
                V = HM(K, [V])
                K = HM(K, [V, [1], xb, eb])
                V = HM(K, [V])
                outs = []
                for j in range(nreads):
                    if j > 0:
                        K = HM(K, [V, [0]])
                        V = HM(K, [V])
                    V = HM(K, [V])
                    outs.append(V)
                for j in range(nreads):
                    buf = m.new_byte_slice(sym_bytes('pre%d' % j, 32), 'buf')
                    n, err = m.invoke(drbg, 'Read', [buf])
                    ctx.check(err is None and n == 32, 'read-returns-32')
                    ctx.check(tm.eq(cat_bytes(m.slice_elems(buf)), cat_bytes(outs[j]), 256), 'bv:candidate-%d=RFC6979-T' % (j + 1))
                sub.note_machine(m)
                # wrong read length panics
                try:
                    m.invoke(drbg, 'Read', [m.new_byte_slice([0] * 31, 'short')])
                    ctx.check(False, 'wrong-length-read-must-panic')
                except X.GoPanic:
                    pass
            sub.explore('rfc6979/reads%d' % nreads, h, mode='bv')
        return task
    def t_rfc6979_scrub(nreads):
        """same, but the caller reuses ONE buffer and overwrites it between reads: the generator must not keep state in
        caller-owned memory"""
        def task(sub):
            def h(ctx):
                m = mk(ctx)
                x = [tm.var('x_%d' % i, 64) for i in range(4)]
                e = [tm.var('e_%d' % i, 64) for i in range(4)]
                Xv, Ev = tm.lift(cat_limbs(x), 256), tm.lift(cat_limbs(e), 256)
                ctx.assume(in_range(Xv))
                ctx.assume(tm.ult(Ev, N_ORDER, 256))
                xb, eb = stubs.bytes_of_term(Xv, 32), stubs.bytes_of_term(Ev, 32)
                drbg = m.call(SECEC + 'newDrbgRFC6979', [X.Ptr(scalar_obj(m, x), ()), X.Ptr(scalar_obj(m, e), ())])

                def HM(key, parts):
                    return stubs.H('hmac_sha256_key%d' % len(key), [key] + parts)
                V, K = [1] * 32, [0] * 32
                K = HM(K, [V, [0], xb, eb])
                V = HM(K, [V])
                K = HM(K, [V, [1], xb, eb])
                V = HM(K, [V])
                buf = m.new_byte_slice(sym_bytes('pre', 32), 'buf')
                from engine.builtins_go import _elem_ptr
                for j in range(nreads):
                    if j > 0:
                        K = HM(K, [V, [0]])
                        V = HM(K, [V])
                    V = HM(K, [V])
                    n, err = m.invoke(drbg, 'Read', [buf])
                    ctx.check(tm.eq(cat_bytes(m.slice_elems(buf)), cat_bytes(V), 256), 'bv:candidate-%d=RFC6979-T-despite-caller-scrubbing-its-buffer' % (j + 1))
                    for i in range(32):                        # the caller wipes / reuses its buffer
                        m.store(_elem_ptr(buf, i), tm.var('scrub%d_%d' % (j, i), 8))
                sub.note_machine(m)
            sub.explore('rfc6979/scrubbed-buffer-reads%d' % nreads, h, mode='bv')
        return task

    def t_rfc6979_sampler(sub):
        """the real sampler over the real generator: the nonce is the first RFC 6979 candidate in [1,n)"""
        def h(ctx):
            m = mk(ctx)
            x = [tm.var('x_%d' % i, 64) for i in range(4)]
            e = [tm.var('e_%d' % i, 64) for i in range(4)]
            Xv, Ev = tm.lift(cat_limbs(x), 256), tm.lift(cat_limbs(e), 256)
            ctx.assume(in_range(Xv))
            ctx.assume(tm.ult(Ev, N_ORDER, 256))
            xb, eb = stubs.bytes_of_term(Xv, 32), stubs.bytes_of_term(Ev, 32)
            drbg = m.call(SECEC + 'newDrbgRFC6979', [X.Ptr(scalar_obj(m, x), ()), X.Ptr(scalar_obj(m, e), ())])

            def HM(key, parts):
                return stubs.H('hmac_sha256_key%d' % len(key), [key] + parts)
            V, K = [1] * 32, [0] * 32
            K = HM(K, [V, [0], xb, eb])
            V = HM(K, [V])
            K = HM(K, [V, [1], xb, eb])
            V = HM(K, [V])
            T = []
            for j in range(8):
                if j > 0:
                    K = HM(K, [V, [0]])
                    V = HM(K, [V])
                V = HM(K, [V])
                T.append(tm.lift(cat_bytes(V), 256))
            # bound: the first two candidates may be rejected, the third is in range (deeper rejection chains: sampler/* obligations)
            ctx.assume(in_range(T[2]))
            # unwinding assertion: with T[2] in range the rejection loop runs at most three times; a fourth trip fails the obligation
            m.unwind = 4
            s, err = m.call(SECEC + 'sampleRandomScalar', [drbg])
            sub.note_machine(m)
            ctx.check(err is None, 'a-nonce-is-found')
            if err is None:
                want = tm.ite(in_range(T[0]), T[0], tm.ite(in_range(T[1]), T[1], T[2], 256), 256)
                ctx.check(tm.eq(scalar_val(m, s), want, 256), 'bv:nonce=first-RFC6979-candidate-in-[1,n)')
            return 'ok'
        paths = sub.explore('rfc6979/sampler-over-generator', h, mode='bv')
        sub.add('rfc6979/sampler-over-generator/witness-3-paths', [], len([p for p in paths if p.outcome == 'ok']) >= 3)
    if not only or 'rfc' in only:
        for n in range(1, (9 if chk.thorough else 5)):
            tasks.append(('rfc6979/%d' % n, t_rfc6979(n)))
        for n in ((2, 3, 4) if chk.thorough else (3,)):
            tasks.append(('rfc6979-scrub/%d' % n, t_rfc6979_scrub(n)))
        tasks.append(('rfc6979-sampler', t_rfc6979_sampler))
        chk.bounds.append('drbgRFC6979: all x in [1,n), all e in [0,n); candidate sequences of 1..%d successive reads compared term by term with RFC 6979 section 3.2 (d-h)' % (8 if chk.thorough else 4))
        chk.outside.append('statistical uniformity of the XOF/HMAC output; more than %d successive reads' % (8 if chk.thorough else 4))

    return tasks


if __name__ == '__main__':
    from .common import run_main
    run_main(main)
