"""C11 Public-key recovery returns exactly the key the signature verifies under."""
import os
from .common import Check, load_prog, load_globals, new_machine, tm, X, MOD, cat_bytes
from . import stubs, toy as T
from .c07 import spec_verify, spec_recover, digest_bytes, TOYS_QUICK, TOYS_THOROUGH

SECEC = MOD + '/secec.'
W = T.W


def main():
    chk = Check('C11')
    prog = load_prog()
    gl = load_globals(prog)
    chk.summaries.update(T.CONTRACT_SUMMARY)
    toys = TOYS_THOROUGH if chk.thorough else TOYS_QUICK
    tasks = []

    def mk(ctx, toy):
        m = new_machine(prog, ctx, gl, value_model=True)
        stubs.install_crypto_hash(m)
        T.install(m, toy)
        return m

    def t_recover(toy, L, rfix=None):
        def task(sub):
            def h(ctx):
                m = mk(ctx, toy)
                r, s = (tm.var('r', W) if rfix is None else rfix), tm.var('s', W)
                ctx.assume(tm.ult(r, toy.n, W))
                ctx.assume(tm.ult(s, toy.n, W))
                v = tm.var('v', 8)
                e16, hb = digest_bytes(L)
                try:
                    key, err = m.call(SECEC + 'RecoverPublicKey', [m.new_byte_slice(hb, 'digest'), T.new_scalar(m, r), T.new_scalar(m, s), v])
                except X.GoPanic:
                    ctx.check(False, 'panic-branch-unreachable')
                    return 'panic'
                sub.note_machine(m)
                ok, Q = spec_recover(toy, e16, r, s, v)
                if L < 32:
                    ok = False
                if err is None:
                    ctx.check(ok, 'bv:success-implies-SEC1-4.1.6-conditions')
                    kt = [None, T.fld(m, key, T.PUB_T, 'point'), T.fld(m, key, T.PUB_T, 'pointBytes')]
                    kq = m.toy_pget(kt[1])
                    ctx.check(tm.eq(kq, Q, W), 'bv:returned-key=r^-1(sR-eG)')
                    pb = m.slice_elems(kt[2])
                    want = [4] + T.be32(toy.X(Q)) + T.be32(toy.Y(Q))
                    ctx.check(len(pb) == 65 and tm.eq(cat_bytes(pb), cat_bytes(want), 520), 'bv:cached-encoding-is-the-encoding-of-the-point')
                    return 'ok'
                ctx.check(tm.bnot(ok), 'bv:error-only-in-the-listed-cases')
                ctx.check(key.is_nil(), 'no-key-on-error')
                return 'err'
            paths = sub.explore('toy(%d,%d)/RecoverPublicKey@len%d%s' % (toy.p, toy.n, L, '' if rfix is None else '@r=%d' % rfix), h, mode='bv', timeout=300)
            if L >= 32 and rfix is None:
                sub.add('toy(%d,%d)/RecoverPublicKey@len%d/witness' % (toy.p, toy.n, L), [], {p.value for p in paths} == {'ok', 'err'})
        return task
    for i, (p, n) in enumerate(toys if chk.thorough else toys[:1]):
        if i == 0:
            for L in (0, 31, 32, 64):
                tasks.append(('recover', t_recover(T.get_toy(p, n), L)))
        else:
            # larger toy curves: case split on r (the algebraic regrouping r^-1(sR-eG) = (-e/r)G + (s/r)R is beyond the
            # bit-blaster when everything is symbolic at n' = 139)
            for rr in range(0, n):
                tasks.append(('recover', t_recover(T.get_toy(p, n), 32, rfix=rr)))
    chk.bounds.append('RecoverPublicKey: toy curves %s; all r,s in [0,n\'), all 256 recovery ids, all digests (leading 32 bytes < 2^16), lengths {0,31,32,64}; '
                      'x = r + n\' < p\' with bit 1 set is reachable on every toy curve' % (toys if chk.thorough else toys[:1]))

    # specification lemma (split over r): every recovered key verifies (r,s) on that digest
    def t_lemma(toy, rr):
        def task(sub):
            def h(ctx):
                s, e16, v = tm.var('s', W), tm.var('e16', W), tm.var('v', 8)
                ctx.assume(tm.ult(s, toy.n, W))
                ok, Q = spec_recover(toy, e16, rr, s, v)
                ctx.assume(ok)
                ctx.check(spec_verify(toy, e16, rr, s, Q), 'bv:recovered-key-verifies')
            sub.explore('toy(%d,%d)/spec-lemma-recovered-key-verifies@r=%d' % (toy.p, toy.n, rr), h, mode='bv', timeout=300)
        return task
    for (p, n) in (toys if chk.thorough else toys[:1]):
        for rr in range(1, n):
            tasks.append(('lemma', t_lemma(T.get_toy(p, n), rr)))
    chk.notes.append('the full-width logic of RecoverPoint (id range, x = r + n < p check, compressed decode) is discharged by C06 recover/*; '
                     '"for a signature produced by Sign only the emitted id recovers the signer" is C08 spec-lemma')
    # exact full-width part: the real RecoverPoint (id range, x = r + n < p consistency, compressed decode)
    from . import c06
    c06.add_recover_task(chk, prog, gl, tasks)
    # contracts this check's toy layer uses for routines named in the property's own file list: re-decided here (see common.include_dependency)
    from .common import include_dependency
    if True:
        include_dependency(chk, tasks, 'C04', 'consts mulg split bound table lookup ladder', 'recovery computes u2*R with the variable-time GLV multiply (toy layer: contract)')
        include_dependency(chk, tasks, 'C05', 'table lookup basemult', 'recovery computes u1*G with scalarBaseMultVartime (toy layer: contract)')
        include_dependency(chk, tasks, 'C16', 'dsm', 'recovery calls DoubleScalarMultBasepointVartime (toy layer: contract)')
    from .common import include_ring_dependency
    include_ring_dependency(chk, tasks, 'C01', 'field', ['field_sqrt'], 'RecoverPoint solves y^2 = x^3 + 7 with Element.Sqrt (contract: root iff square, zero otherwise); the real code is re-decided here')
    chk.run_tasks(tasks)
    chk.discharge()
    chk.finish()


if __name__ == '__main__':
    from .common import run_main
    run_main(main)
