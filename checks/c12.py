"""C12 Signature and key wire formats are strict, canonical, and parsed without panics."""
import os
from .common import Check, load_prog, load_globals, new_machine, tm, X, MOD, N_ORDER, sym_bytes, cat_bytes, cat_limbs
from .common import make_error
from . import models, specs as S

SECEC = MOD + '/secec.'
BTC = MOD + '/secec/bitcoin.'


def scalar_value(m, p):
    """plain value held by *Scalar p in the R=1 value model"""
    return cat_limbs(list(m.load(p)[1]))


ROOT = MOD + '.'
PTM = '(*' + MOD + '.Point).'
PKM = '(*' + MOD + '/secec.PublicKey).'
PUB_T = MOD + '/secec.PublicKey'


def install_point_decode_contract(m):
    """secp256k1.NewPointFromBytes replaced by its C06 contract: a point is returned exactly when the byte string is a SEC 1 encoding of a
    curve point -- for the non-identity formats an uninterpreted predicate of the bytes per length -- and the Point methods the key
    constructors use are stated on that abstract point (IsIdentity; UncompressedBytes / CompressedBytes = the unique encodings, C06
    round trip).  Everything above it (NewPublicKey, newPublicKeyFromPoint or whatever the current tree calls) runs from its real SSA."""
    m.abstract_types[MOD + '.Point'] = lambda: X.Abs('pt', 'invalid')
    m.npk_calls = []

    def newpt(v):
        return X.Ptr(m.new_obj(None, tree=X.Abs('pt', v), label='Point'), ())

    def get(p):
        v = m.load(p).v
        if v == 'invalid':
            raise X.GoPanic('secp256k1: use of uninitialized Point')
        return v

    def c_frombytes(m, a):
        el = m.slice_elems(a[0])
        n = len(el)
        m.npk_calls.append(el)
        if n == 1:
            if m.ctx.branch(tm.eq(el[0], 0, 8)):
                return (newpt({'id': True}), None)
            return (X.NILPTR, make_error(m, 'invalid point'))
        if n not in (33, 65):
            return (X.NILPTR, make_error(m, 'invalid point'))
        ok = tm.uf('sec1_valid_nonidentity_%d' % n, [tm.lift(cat_bytes(el), 8 * n)], 0)
        if m.ctx.branch(ok):
            # the uninterpreted validity predicate implies the SEC 1 format octet (C06 decode/*: accepted-implies-SEC1)
            m.ctx.assume(tm.eq(el[0], 4, 8) if n == 65 else tm.bor(tm.eq(el[0], 2, 8), tm.eq(el[0], 3, 8)))
            return (newpt({'id': False, 'enc': tuple(el)}), None)
        return (X.NILPTR, make_error(m, 'invalid point'))
    C = m.contracts
    C[ROOT + 'NewPointFromBytes'] = c_frombytes
    C[ROOT + 'NewPointFrom'] = lambda m, a: newpt(dict(get(a[0])))
    C[PTM + 'IsIdentity'] = lambda m, a: 1 if get(a[0])['id'] else 0

    def xy(v):
        enc = list(v['enc'])
        x = enc[1:33]
        if len(enc) == 65:
            return x, enc[33:65]
        y = tm.uf('sec1_y_of_compressed', [tm.lift(cat_bytes(enc), 264)], 256)
        return x, [tm.extract(y, 255 - 8 * i, 248 - 8 * i) for i in range(32)]

    def c_unc(m, a):
        v = get(a[0])
        if v['id']:
            return m.new_byte_slice([0], 'UncompressedBytes')
        x, y = xy(v)
        return m.new_byte_slice([4] + x + y, 'UncompressedBytes')

    def c_cmp(m, a):
        v = get(a[0])
        if v['id']:
            return m.new_byte_slice([0], 'CompressedBytes')
        x, y = xy(v)
        return m.new_byte_slice([tm.bv('or', tm.bv('and', y[31], 1, 8), 2, 8)] + x, 'CompressedBytes')
    C[PTM + 'UncompressedBytes'] = c_unc
    C[PTM + 'CompressedBytes'] = c_cmp


def pub_field(m, key, name):
    t = m.prog.under(m.prog.tid_by_str[PUB_T])
    for i, f in enumerate(t['fields']):
        if f['name'] == name:
            return m.load(key)[i]
    raise X.Unsupported('secec.PublicKey has no field %s in the current tree' % name)


P = 2 ** 256 - 2 ** 32 - 977
GX = 0x79be667ef9dcbbac55a06295ce870b07029bfcdb2dce28d959f2815b16f81798
GY = 0x483ada7726a3c4655da4fbfc0e1108a8fd17b448a68554199c47d08ffb10d4b8


def sec1_valid_nonidentity(pt):
    """independent reference (python ints): SEC 1 encoding of a non-identity curve point"""
    if len(pt) == 65 and pt[0] == 4:
        x, y = int.from_bytes(pt[1:33], 'big'), int.from_bytes(pt[33:], 'big')
        return x < P and y < P and (y * y - x * x * x - 7) % P == 0
    if len(pt) == 33 and pt[0] in (2, 3):
        x = int.from_bytes(pt[1:], 'big')
        if x >= P:
            return False
        yy = (x * x * x + 7) % P
        return pow(yy, (P - 1) // 2, P) == 1
    return False


def reference_accepts(kind, data):
    B = list(data)
    if kind == 'bip66':
        return bool(S.bip66_grammar(B))
    if kind == 'der':
        return bool(S.der_sig_grammar(B)[0])
    if kind == 'compact64':
        return bool(S.compact_grammar(B, 64)[0])
    if kind == 'compact65':
        return bool(S.compact_grammar(B[:64], 64)[0]) if len(B) == 65 else False
    if kind == 'spki':
        for ptlen in (33, 65):
            hdr = S.spki_header(ptlen)
            if len(B) == len(hdr) + ptlen and bytes(B[:len(hdr)]) == hdr:
                return sec1_valid_nonidentity(bytes(B[len(hdr):]))
        return False
    raise ValueError(kind)


def make_replayer(chk):
    """confirm a failed obligation natively: candidate inputs from the solver model (and, where the encoding is
    abstract, from a pool of real curve points) are run through the real build and an independent reference."""
    import re
    from engine import native
    from .common import workdir
    budget = {'n': 0}

    def rep(o, detail):
        name = o.name
        model = o.model or {}
        if budget['n'] >= 12:
            return None
        mm = re.search(r'@len(\d+)', name)
        cands = []
        if name.startswith('bip66'):
            kind, op, pkg, L = 'bip66', 'IsValidSignatureEncodingBIP0066', 'bitcoin', int(mm.group(1))
        elif name.startswith('derSig'):
            kind, op, pkg, L = 'der', 'ParseASN1Signature', 'secec', int(mm.group(1))
        elif name.startswith('ParseCompactSignature'):
            kind, op, pkg, L = 'compact64', 'ParseCompactSignature', 'secec', int(mm.group(1))
        elif name.startswith('ParseCompactRecoverableSignature'):
            kind, op, pkg, L = 'compact65', 'ParseCompactRecoverableSignature', 'secec', int(mm.group(1))
        elif name.startswith('spki'):
            kind, op, pkg = 'spki', 'ParseASN1PublicKey', 'secec'
            ptlen = int(re.search(r'@pt(\d+)', name).group(1))
            hdr = S.spki_header(ptlen)
            ml = re.search(r'/len([+-]\d)', name)
            L = len(hdr) + ptlen + (int(ml.group(1)) if ml else 0)
            base = bytearray(L)
            for i in range(L):
                base[i] = model.get('B_%d' % i, hdr[i] if i < len(hdr) else 0)
            # abstract encoding (validity of the point is uninterpreted): substitute real points, shifted as the model's
            # unused-bits byte demands
            gu = bytes([4]) + GX.to_bytes(32, 'big') + GY.to_bytes(32, 'big')
            gc = bytes([2 + (GY & 1)]) + GX.to_bytes(32, 'big')
            for k in sorted({base[len(hdr) - 1] & 7, 1, 2, 3, 4, 5, 6, 7, 0}):
                if L == len(hdr) + ptlen:
                    g = gu if ptlen == 65 else gc
                    v = (int.from_bytes(g, 'big') << k) & ((1 << (8 * ptlen)) - 1)
                    c = bytearray(base)
                    c[len(hdr) - 1] = k
                    c[len(hdr):] = v.to_bytes(ptlen, 'big')
                    cands.append(bytes(c))
        else:
            return None
        data = bytes(model.get('B_%d' % i, 0) for i in range(L)) if kind != 'spki' else bytes(base)
        cands.insert(0, data)
        budget['n'] += 1
        res = native.run(pkg, [{'op': op, 'in': [c.hex()]} for c in cands], workdir())
        for c, r in zip(cands, res):
            ref = reference_accepts(kind, c)
            if r.get('panic') or bool(r.get('ok')) != ref:
                detail['input_hex'] = c.hex()
                detail['native'] = r
                detail['reference_accepts'] = ref
                if kind == 'spki' and c[len(S.spki_header(33 if len(c) < 70 else 65)) - 1] != 0:
                    detail['input_id'] = 'spki-bitstring-unused-bits-nonzero'
                return True
        detail['candidates_tried'] = len(cands)
        return False
    return rep


def main():
    chk = Check('C12')
    prog = load_prog()
    gl = load_globals(prog)
    only = os.environ.get('VERIF_ONLY', '')
    chk.summaries.update(models.VALUE_MODEL_SUMMARY)
    chk.summaries['secp256k1.NewPointFromBytes (inside ParseASN1PublicKey)'] = ('accepts iff SEC 1 encoding of a curve point (uninterpreted predicate per length, which implies the format octet 04 / 02,03); '
                                                                              'IsIdentity / UncompressedBytes / CompressedBytes of the decoded point = its unique encodings: discharged by C06; the key constructors above it run from their real SSA')
    chk.stubs += ['fmt.Errorf/errors.New: fresh non-nil error object per call']
    tasks = []

    def mk(ctx):
        m = new_machine(prog, ctx, gl, value_model=True)
        models.install_value_model(m, mul='uf')
        return m

    # ---------------------------------------------------------------- BIP-66 predicate: every length 0..80, all contents
    def t_bip66(L):
        def task(sub):
            def h(ctx):
                m = mk(ctx)
                B = sym_bytes('B', L)
                r = m.call(BTC + 'IsValidSignatureEncodingBIP0066', [m.new_byte_slice(B, 'data')])
                ctx.check(tm.eq(r, S.bip66_grammar(B), 0), 'accept-iff-grammar')
                sub.note_machine(m)
                return r
            paths = sub.explore('bip66@len%d' % L, h)
            accs = [p for p in paths if p.value is True]
            sub.add('bip66@len%d/witness-accepting-path' % L, [], (len(accs) > 0) == (9 <= L <= 73))
        return task
    if not only or 'bip66' in only:
        for L in range(0, 81):
            tasks.append(('bip66@%d' % L, t_bip66(L)))
        chk.bounds.append('IsValidSignatureEncodingBIP0066: every input length 0..80, all byte contents (one symbolic run per length)')

    # ---------------------------------------------------------------- strict DER signature parser
    def t_der(L):
        def task(sub):
            def h(ctx):
                m = mk(ctx)
                B = sym_bytes('B', L)
                r, s, err = m.call(SECEC + 'ParseASN1Signature', [m.new_byte_slice(B, 'data')])
                acc, rv, sv = S.der_sig_grammar(B)
                sub.note_machine(m)
                if err is None:
                    ctx.check(acc, 'accepted-implies-grammar')
                    ctx.check(tm.eq(tm.zext(scalar_value(m, r), 264), rv, 264), 'r-value')
                    ctx.check(tm.eq(tm.zext(scalar_value(m, s), 264), sv, 264), 's-value')
                    return 'accept'
                ctx.check(tm.bnot(acc), 'rejected-implies-not-grammar')
                ctx.check(r.is_nil() and s.is_nil(), 'no-object-on-error')
                return 'reject'
            paths = sub.explore('derSig@len%d' % L, h)
            accs = [p for p in paths if p.value == 'accept']
            # reachability witness (vacuity guard): accepting paths exist exactly for 8 <= L <= 72
            sub.add('derSig@len%d/witness-accepting-path-%s' % (L, 'exists' if 8 <= L <= 72 else 'absent'), [],
                    (len(accs) > 0) == (8 <= L <= 72))
        return task
    if not only or 'der' in only:
        lens = list(range(0, 81)) if chk.thorough else (list(range(0, 13)) + [39, 40, 41, 69, 70, 71, 72, 73, 74])
        for L in lens:
            tasks.append(('der@%d' % L, t_der(L)))
        chk.bounds.append('ParseASN1Signature: input lengths %s, all byte contents; cryptobyte readers executed from their real SSA' % (
            '0..80' if chk.thorough else '0..12, 39..41, 69..74'))
        chk.outside.append('ParseASN1Signature inputs longer than 80 bytes (strict DER of two 33-byte integers is at most 72 bytes)')

    # ---------------------------------------------------------------- compact parsers
    def t_compact(L, fn, want):
        def task(sub):
            def h(ctx):
                m = mk(ctx)
                B = sym_bytes('B', L)
                res = m.call(SECEC + fn, [m.new_byte_slice(B, 'data')])
                sub.note_machine(m)
                acc, rv, sv = S.compact_grammar(B[:64], 64) if L == want else (False, 0, 0)
                err = res[-1]
                if err is None:
                    ctx.check(acc, 'accepted-implies-grammar')
                    ctx.check(tm.eq(scalar_value(m, res[0]), rv, 256), 'r-value')
                    ctx.check(tm.eq(scalar_value(m, res[1]), sv, 256), 's-value')
                    if want == 65:
                        ctx.check(tm.eq(res[2], B[64], 8), 'v-value')
                    return 'accept'
                ctx.check(tm.bnot(acc), 'rejected-implies-not-grammar')
                ctx.check(res[0].is_nil() and res[1].is_nil(), 'no-object-on-error')
                return 'reject'
            paths = sub.explore('%s@len%d' % (fn, L), h)
            accs = [p for p in paths if p.value == 'accept']
            sub.add('%s@len%d/witness-accepting-path' % (fn, L), [], (len(accs) > 0) == (L == want))
        return task
    if not only or 'compact' in only:
        for L in range(0, 71):
            for fn, want in (('ParseCompactSignature', 64), ('ParseCompactRecoverableSignature', 65)):
                tasks.append(('%s@%d' % (fn, L), t_compact(L, fn, want)))
        chk.bounds.append('ParseCompactSignature / ParseCompactRecoverableSignature: every input length 0..70, all byte contents')

    # ---------------------------------------------------------------- SubjectPublicKeyInfo
    def t_spki(name, L, ptlen, symbolic_header_positions, reencode=False):
        hdr = S.spki_header(ptlen)

        def task(sub):
            def h(ctx):
                m = mk(ctx)
                install_point_decode_contract(m)
                B = []
                for i in range(L):
                    if i < len(hdr) and i not in symbolic_header_positions:
                        B.append(hdr[i])
                    else:
                        B.append(tm.var('B_%d' % i, 8))
                data = m.new_byte_slice(B, 'data')
                key, err = m.call(SECEC + 'ParseASN1PublicKey', [data])
                sub.note_machine(m)
                # specification: exact header (which includes unused-bits = 0) and a valid non-identity SEC 1 point
                if L == len(hdr) + ptlen:
                    hdr_ok = tm.band_all([tm.eq(B[i], hdr[i], 8) for i in range(len(hdr))])
                    pt = B[len(hdr):]
                    valid = tm.uf('sec1_valid_nonidentity_%d' % ptlen, [tm.lift(cat_bytes(pt), 8 * ptlen)], 0)
                    spec = tm.band(hdr_ok, valid)
                else:
                    spec = False
                if err is None:
                    ctx.check(spec, 'accepted-implies-grammar')
                    if L == len(hdr) + ptlen:
                        ctx.check(tm.eq(B[len(hdr) - 1], 0, 8), 'accepted-implies-no-unused-bits')
                        ctx.check(len(m.npk_calls) >= 1 and len(m.npk_calls[-1]) == ptlen and
                                  tm.eq(cat_bytes(m.npk_calls[-1]), cat_bytes(pt), 8 * ptlen), 'decoded-point-bytes-are-the-input-bytes')
                        # the key object is independent of the caller's buffer: the caller overwrites all of it, then the key is re-encoded
                        for i in range(L):
                            m.store(X.Ptr(data.obj, data.path + (data.off + i,)), tm.var('reuse_%d' % i, 8))
                        kb = m.slice_elems(pub_field(m, key, 'pointBytes'))
                        if ptlen == 65:
                            ctx.check(len(kb) == 65 and tm.eq(cat_bytes(kb), cat_bytes(pt), 520), 'cached-encoding=input-point-bytes-after-the-caller-reuses-its-buffer')
                            enc = m.slice_elems(m.call(PKM + 'Bytes', [key]))
                            ctx.check(len(enc) == 65 and tm.eq(cat_bytes(enc), cat_bytes(pt), 520), 'Bytes()=input-point-bytes-after-the-caller-reuses-its-buffer')
                            if reencode:
                                der = m.slice_elems(m.call(PKM + 'ASN1Bytes', [key]))
                                ctx.check(len(der) == L and tm.eq(cat_bytes(der), cat_bytes(B), 8 * L), 're-encoding-a-parsed-uncompressed-key-reproduces-the-input')
                        else:
                            ctx.check(len(kb) == 65 and tm.eq(cat_bytes(kb[:33]), cat_bytes([4] + pt[1:]), 264), 'cached-encoding-has-the-input-x-after-the-caller-reuses-its-buffer')
                    return 'accept'
                ctx.check(tm.bnot(spec), 'rejected-implies-not-grammar')
                ctx.check(key.is_nil(), 'no-object-on-error')
                return 'reject'
            paths = sub.explore(name, h, max_paths=30000)
            accs = [p for p in paths if p.value == 'accept']
            sub.add(name + '/witness-accepting-path', [], (len(accs) > 0) == (L == len(hdr) + ptlen))
        return task
    if not only or 'spki' in only:
        for ptlen in (33, 65):
            hl = len(S.spki_header(ptlen))
            full = hl + ptlen
            # completeness + unused-bits: concrete header except the unused-bits byte, point bytes symbolic
            tasks.append(('spki/%d/concrete-header' % ptlen, t_spki('spki@pt%d/header-concrete' % ptlen, full, ptlen, {hl - 1}, reencode=True)))
            # soundness: any single header byte arbitrary (plus the unused-bits byte and all point bytes)
            for i in range(hl - 1):
                tasks.append(('spki/%d/mut%d' % (ptlen, i), t_spki('spki@pt%d/header-byte%d-symbolic' % (ptlen, i), full, ptlen, {i, hl - 1})))
            if chk.thorough:
                for i in range(hl - 1):
                    for j in range(i + 1, hl - 1):
                        tasks.append(('spki/%d/mut%d,%d' % (ptlen, i, j),
                                      t_spki('spki@pt%d/header-bytes%d,%d-symbolic' % (ptlen, i, j), full, ptlen, {i, j, hl - 1})))
            # wrong total lengths with the otherwise valid header: must reject
            for d in (-2, -1, 1, 2):
                tasks.append(('spki/%d/len%+d' % (ptlen, d), t_spki('spki@pt%d/len%+d' % (ptlen, d), full + d, ptlen, {hl - 1})))
        chk.bounds.append('ParseASN1PublicKey: total length valid and valid+-1,2; header = the strict-DER header with any %s header byte(s) arbitrary; '
                          'unused-bits byte and all point bytes always arbitrary; 33- and 65-byte points' % ('two' if chk.thorough else 'one'))
        chk.outside.append('SPKI inputs that differ from a valid header in more than %d header bytes simultaneously' % (2 if chk.thorough else 1))

    # ---------------------------------------------------------------- builders: real cryptobyte.Builder, math/big stubbed
    def der_int_spec(body):
        """minimal DER INTEGER of a non-zero big-endian magnitude whose first byte is non-zero (list of byte terms):
        returns list of alternatives (condition, bytes)"""
        n = len(body)
        hi = tm.eq(tm.bv('and', body[0], 0x80, 8), 0x80, 8)
        return [(hi, [0x02, n + 1, 0] + body), (tm.bnot(hi), [0x02, n] + body)]

    def t_build(lr, ls):
        def task(sub):
            def h(ctx):
                m = mk(ctx)
                stubs_mod.install_bigint(m)
                rb, sb = sym_bytes('r', lr), sym_bytes('s', ls)
                for b in (rb, sb):
                    ctx.assume(tm.bnot(tm.eq(b[0], 0, 8)))          # byte-length class: exactly lr / ls significant bytes
                R, Sv = tm.lift(cat_bytes([0] * (32 - lr) + rb), 256), tm.lift(cat_bytes([0] * (32 - ls) + sb), 256)
                ctx.assume(tm.ult(R, N_ORDER, 256))
                ctx.assume(tm.ult(Sv, N_ORDER, 256))
                ro = X.Ptr(m.new_obj(None, tree=[[], models.split_limbs(R)], label='r'), ())
                so = X.Ptr(m.new_obj(None, tree=[[], models.split_limbs(Sv)], label='s'), ())
                out = m.call(SECEC + 'BuildASN1Signature', [ro, so])
                sub.note_machine(m)
                ob = m.slice_elems(out)
                # specification: 30 len INTEGER(r) INTEGER(s), minimal
                alts = []
                for cr, er in der_int_spec(rb):
                    for cs, es in der_int_spec(sb):
                        body = er + es
                        want = [0x30, len(body)] + body
                        if len(want) == len(ob):
                            alts.append(tm.band_all([cr, cs, tm.eq(cat_bytes(ob), cat_bytes(want), 8 * len(ob))]))
                ctx.check(tm.bor_all(alts), 'bv:bytes=strict-DER(SEQUENCE{INTEGER r, INTEGER s})')
                # parse(build(r,s)) = (r,s)
                r2, s2, err = m.call(SECEC + 'ParseASN1Signature', [out])
                ctx.check(err is None, 'built-signature-parses')
                if err is None:
                    ctx.check(tm.band(tm.eq(scalar_value(m, r2), R, 256), tm.eq(scalar_value(m, s2), Sv, 256)), 'bv:parse(build(r,s))=(r,s)')
                return 'ok'
            sub.explore('build/BuildASN1Signature@rlen%d@slen%d' % (lr, ls), h, mode='bv')
        return task
    if not only or 'build' in only:
        from . import stubs as stubs_mod
        classes = [(1, 1), (32, 32), (32, 1), (1, 32), (17, 5), (31, 32)] if not chk.thorough else [(a, b) for a in (1, 2, 16, 31, 32) for b in (1, 2, 16, 31, 32)]
        for lr, ls in classes:
            tasks.append(('build', t_build(lr, ls)))

        def t_build_compact(sub):
            def h(ctx):
                m = mk(ctx)
                from .common import sym_limbs
                rl, sl = sym_limbs('r'), sym_limbs('s')
                R, Sv = tm.lift(cat_limbs(rl), 256), tm.lift(cat_limbs(sl), 256)
                for v in (R, Sv):
                    ctx.assume(tm.band(tm.bnot(tm.eq(v, 0, 256)), tm.ult(v, N_ORDER, 256)))
                ro = X.Ptr(m.new_obj(None, tree=[[], list(rl)], label='r'), ())
                so = X.Ptr(m.new_obj(None, tree=[[], list(sl)], label='s'), ())
                vv = tm.var('v', 8)
                o1 = m.slice_elems(m.call(SECEC + 'BuildCompactSignature', [ro, so]))
                o2 = m.slice_elems(m.call(SECEC + 'BuildCompactRecoverableSignature', [ro, so, vv]))
                ctx.check(len(o1) == 64 and tm.eq(cat_bytes(o1), tm.concat(R, Sv, 256), 512), 'bv:compact=r||s')
                ctx.check(len(o2) == 65 and tm.eq(cat_bytes(o2), tm.concat(tm.concat(R, Sv, 256), vv, 8), 520), 'bv:compact-recoverable=r||s||v')
                r2, s2, v2, err = m.call(SECEC + 'ParseCompactRecoverableSignature', [m.new_byte_slice(o2, 'sig')])
                ctx.check(err is None and tm.band_all([tm.eq(scalar_value(m, r2), R, 256), tm.eq(scalar_value(m, s2), Sv, 256), tm.eq(v2, vv, 8)]) is not False, 'bv:parse(build)=identity')
                sub.note_machine(m)
            sub.explore('build/compact', h, mode='bv')
        tasks.append(('build-compact', t_build_compact))
        chk.bounds.append('BuildASN1Signature (real cryptobyte.Builder executed; math/big = unsigned big-endian value): byte-length classes %s of (r,s), all values; '
                          'compact builders: all (r,s,v)' % (classes,))
        chk.stubs.append('math/big.Int (SetBytes/Sign/Bytes/BitLen): unsigned big-endian magnitude')

    chk.log('%d tasks' % len(tasks))
    chk.run_tasks(tasks)
    chk.discharge()
    chk.finish(replayer=make_replayer(chk))


if __name__ == '__main__':
    from .common import run_main
    run_main(main)
