"""C05 Fixed-base multiplication and the embedded generator tables are exact."""
import os
import z3
from .common import Check, load_prog, load_globals, new_machine, tm, X, MOD, N_ORDER, P_FIELD, sym_limbs, cat_limbs, cat_bytes, point_tree, point_get
from . import models, groupalg as GA
from .c04 import ec_add, GX, GY, strip_zext_t

ROOT = MOD + '.'
PT = '(*' + MOD + '.Point).'
FE = '(*' + MOD + '/internal/field.Element).'
ATBL = '(*' + MOD + '.affinePointMultTable).'
HTBL = '(*' + MOD + '.hugeAffinePointMultTable).'
ELEM_T = MOD + '/internal/field.Element'
N = N_ORDER


class Coord:
    """abstract field element that is a coordinate of an affine group element"""
    __slots__ = ('axis', 'lin')

    def __init__(self, axis, lin):
        self.axis = axis
        self.lin = lin


FZERO = 'fe-zero'
POISON = GA.base('POISON')


def install_affine(m):
    """field.Element leaves carry 'x/y coordinate of the affine point L' tags (L a linear combination); the only
    field operations the fixed-base code performs on them are copies and selects; addMixed consumes a matching pair"""
    low = m.bvlow
    m.abstract_types[ELEM_T] = lambda: X.Abs('fe', FZERO)

    def sel(cond, a, b):
        if a is b:
            return a
        az, bz = a is FZERO, b is FZERO
        la = GA.ZERO if az else a.lin
        lb = GA.ZERO if bz else b.lin
        axis = (b if az else a).axis
        if not az and not bz and a.axis != b.axis:
            raise X.Unsupported("select between x and y coordinates")
        # a zero element is represented as the coordinate of the empty combination plus a flag base
        za = GA.base('ZEROFE') if az else GA.ZERO
        zb = GA.base('ZEROFE') if bz else GA.ZERO
        return Coord(axis, GA.ite_lin(cond, la + za, lb + zb))

    def c_condsel(m, a):
        va, vb = m.load(a[1]).v, m.load(a[2]).v
        c = GA.z3cond(low, tm.eq(a[3], 0, 64))
        m.store(a[0], X.Abs('fe', sel(c, va, vb)))
        return a[0]
    m.contracts[FE + 'ConditionalSelect'] = c_condsel
    m.contracts[FE + 'Set'] = lambda m, a: (m.store(a[0], X.Abs('fe', m.load(a[1]).v)), a[0])[1]

    def c_addmixed(m, a):
        s = m.grp_raw(a[1])
        x, y = m.load(a[2]).v, m.load(a[3]).v
        if x is FZERO or y is FZERO:
            q = POISON                      # meaningless addition (all-zero "point"): must be discarded by the caller
        elif isinstance(x, Coord) and isinstance(y, Coord) and x.axis == 'x' and y.axis == 'y':
            same = z3.And([x.lin.coeff(k) == y.lin.coeff(k) for k in set(x.lin.c) | set(y.lin.c)])
            if not z3.is_true(z3.simplify(same)):
                m.ctx.z3_checks.append(('addMixed-x-and-y-of-the-same-point', same))
            q = x.lin
            # an element selected from nothing (ZEROFE flag) poisons the sum
            if 'ZEROFE' in q.c:
                zf = q.c.pop('ZEROFE')
                q = q + POISON.scale(zf)
        else:
            raise X.Unsupported("addMixed on non-coordinate operands")
        return m.grp_put(a[0], s + q)
    m.contracts[PT + 'addMixed'] = c_addmixed


def affine_entry(lin):
    return [X.Abs('fe', Coord('x', lin)), X.Abs('fe', Coord('y', lin))]


def main():
    chk = Check('C05')
    tasks = build(chk, os.environ.get('VERIF_ONLY', ''))
    chk.run_tasks(tasks)
    chk.discharge()
    chk.finish()


def build(chk, only=''):
    """append this check's tasks (restricted to the groups named in `only`) to a task list; also used by the checks that
    depend on this one's contracts (common.include_dependency)"""
    prog = load_prog()
    gl = load_globals(prog)
    chk.summaries.update(GA.SUMMARY)
    chk.summaries['addMixed'] = 'P + (x2,y2,1) for a non-identity affine addend: discharged by C03 formula/addMixed + law'
    tasks = []

    # ---------------------------------------------------------------- 1. table contents (ground, from the native dump)
    def t_tables(sub):
        def h(ctx):
            m = new_machine(prog, ctx, gl, value_model=True)
            huge = m.load(m.load(m.global_ptr(ROOT + 'generatorHugeAffineTable')))
            odd = m.load(m.load(m.global_ptr(ROOT + 'generatorOddAffineTable')))
            p = P_FIELD

            def val(e):
                return sum(int(x) << (64 * i) for i, x in enumerate(e[1]))
            bad = []
            base = (GX, GY)
            n_ok = 0
            ctx.check(len(huge) == 32 and all(len(r) == 255 for r in huge), 'huge-table-shape-32x255')
            for i in range(32):
                cur = base
                for j in range(255):
                    x, y = val(huge[i][j][0]), val(huge[i][j][1])
                    if (x, y) != cur or not (x < p and y < p and (y * y - x * x * x - 7) % p == 0):
                        bad.append((i, j))
                    else:
                        n_ok += 1
                    cur = ec_add(cur, base)
                for _ in range(8):
                    base = ec_add(base, base)       # 256 * base
            ctx.check(not bad, 'huge[i][j]=(j+1)*256^i*G (8160 entries; first mismatches: %s)' % bad[:3])
            badodd = []
            ctx.check(len(odd) == 32 and all(len(r) == 15 for r in odd), 'odd-table-shape-32x15')
            for i in range(32):
                for j in range(15):
                    src = huge[i][16 * (j + 1) - 1]
                    if (val(odd[i][j][0]), val(odd[i][j][1])) != (val(src[0]), val(src[1])):
                        badodd.append((i, j))
            ctx.check(not badodd, 'odd[i][j]=huge[i][16(j+1)-1]=16(j+1)*256^i*G (480 entries; first mismatches: %s)' % badodd[:3])
            sub.extra_counts = (n_ok, len(bad), len(badodd))
            raw = m.load(m.global_ptr(ROOT + 'generatorHugeAffineTableBytes'))
            ctx.check(raw is None or raw.obj is None, 'embedded-bytes-released-after-init')
        sub.explore('table/contents', h)
    if not only or 'table' in only:
        tasks.append(('tables', t_tables))
        chk.bounds.append('all 8160 + 480 embedded table entries of the current tree (deserialised by the real init path, dumped natively): ground check against independent affine arithmetic')

    # ---------------------------------------------------------------- machines for the window logic
    def gm(ctx):
        m = new_machine(prog, ctx, gl, value_model=True)
        models.install_value_model(m, mul='uf', which=('scalar',))
        GA.install(m)
        install_affine(m)
        ctx.z3_checks = []
        # table contract (discharged by table/contents): huge[i][j] = (j+1)*256^i*G, odd[i][j] = 16(j+1)*256^i*G
        def huge(mm):
            tree = [[affine_entry(GA.base('G').scale((j + 1) * 256 ** i)) for j in range(255)] for i in range(32)]
            return X.Ptr(mm.new_obj(None, tree=tree, label='generatorHugeAffineTable'), ())

        def odd(mm):
            tree = [[affine_entry(GA.base('G').scale(16 * (j + 1) * 256 ** i)) for j in range(15)] for i in range(32)]
            return X.Ptr(mm.new_obj(None, tree=tree, label='generatorOddAffineTable'), ())
        m.global_init[ROOT + 'generatorHugeAffineTable'] = huge
        m.global_init[ROOT + 'generatorOddAffineTable'] = odd
        return m

    def row_lin(e):
        return e[0].v.lin

    def closed_form(m, ctx, log, nentries, name):
        def c(m, a):
            tbl = m.load(a[0])
            b0 = row_lin(tbl[0])
            for i in range(nentries):
                e = row_lin(tbl[i])
                if not z3.is_true(z3.simplify(z3.And([e.coeff(k) == b0.coeff(k) * (i + 1) for k in set(e.c) | set(b0.c)]))):
                    ctx.check(False, 'lookup-table-holds-(i+1)*P-at-%s' % name)
                    break
            idx = a[2]
            if isinstance(idx, tm.T) and idx.ub > nentries:
                ctx.check(tm.ule(idx, nentries, 64), 'bv:lookup-index-in-range')
            core = strip_zext_t(idx)
            I = z3.BV2Int(m.bvlow.lo(core)) if isinstance(core, tm.T) else z3.IntVal(core)
            log.setdefault(name, []).append(idx)
            return m.grp_put(a[1], m.grp_raw(a[1]) + b0.scale(I))
        return c

    # ---------------------------------------------------------------- 2a. lookup contracts (real code, one call, symbolic index)
    def t_lookup_ct(sub):
        def h(ctx):
            m = gm(ctx)
            tid = prog.tid_by_str[MOD + '.affinePointMultTable']
            tbl = X.Ptr(m.new_obj(tid, tree=[affine_entry(GA.base('T').scale(i + 1)) for i in range(15)], label='tbl'), ())
            idx = tm.var('idx', 64)
            ctx.assume(tm.ule(idx, 15, 64))
            s0 = z3.Int('s0')
            s = m.grp_new(GA.Lin({'S': z3.IntVal(1), 'T': s0}))
            r = m.call(ATBL + 'SelectAndAdd', [tbl, s, idx])
            sub.note_machine(m)
            got = m.grp_get(s)
            I = z3.BV2Int(m.bvlow.lo(idx))
            pc = [m.bvlow.lo(c) for c in ctx.pc if isinstance(c, tm.T)]
            goal = z3.And([got.coeff('T') == s0 + I, got.coeff('S') == 1, got.coeff('POISON') == 0, got.coeff('ZEROFE') == 0] + [c for _, c in ctx.z3_checks])
            ctx.check(r.same(s), 'returns-sum')
            return (pc, goal)
        paths = sub.explore('lookup/affine.SelectAndAdd', h, mode='bv')
        for i, p in enumerate(paths):
            if p.outcome == 'ok' and p.value:
                sub.add("lookup/affine.SelectAndAdd/sum'=sum+idx*T-and-identity-mask#p%d" % i, p.value[0], p.value[1], mode='z3', timeout=120)
        sub.add('lookup/affine.SelectAndAdd/witness-single-path', [], len(paths) == 1 and paths[0].outcome == 'ok')
    if not only or 'lookup' in only:
        tasks.append(('lookup', t_lookup_ct))

    def t_lookup_vt(sub):
        # hugeAffinePointMultTable.SelectAndAddVartime: zero-skip, then direct index idx-1 into the 255 entries
        for k in range(0, 256):
            pass

        def h(ctx):
            m = gm(ctx)
            tid = prog.tid_by_str[MOD + '.hugeAffinePointMultTable']
            ents = [affine_entry(GA.base('T').scale(i + 1)) for i in range(255)]
            tbl = X.Ptr(m.new_obj(tid, tree=ents, label='tbl'), ())
            idx = tm.var('idx', 64)
            ctx.assume(tm.ule(idx, 255, 64))
            s0 = z3.Int('s0')
            s = m.grp_new(GA.Lin({'S': z3.IntVal(1), 'T': s0}))
            # the real code indexes with a symbolic index: the memory model merges the 255 entries per leaf
            def merge(c, a, b):
                if a.kind == 'fe':
                    va, vb = a.v, b.v
                    return X.Abs('fe', Coord(va.axis, GA.ite_lin(GA.z3cond(m.bvlow, c), va.lin, vb.lin)))
                return X.Abs('grp', GA.ite_lin(GA.z3cond(m.bvlow, c), a.v, b.v))
            m.abs_merge = merge
            r = m.call(HTBL + 'SelectAndAddVartime', [tbl, s, idx])
            sub.note_machine(m)
            got = m.grp_get(s)
            I = z3.BV2Int(m.bvlow.lo(idx))
            pc = [m.bvlow.lo(c) for c in ctx.pc if isinstance(c, tm.T)]
            goal = z3.And([got.coeff('T') == s0 + I, got.coeff('S') == 1, got.coeff('POISON') == 0] + [c for _, c in ctx.z3_checks])
            return (pc, goal)
        paths = sub.explore('lookup/huge.SelectAndAddVartime', h, mode='bv')
        for i, p in enumerate(paths):
            if p.outcome == 'ok' and p.value:
                sub.add("lookup/huge.SelectAndAddVartime/sum'=sum+idx*T#p%d" % i, p.value[0], p.value[1], mode='z3', timeout=300)
        sub.add('lookup/huge.SelectAndAddVartime/witness-zero-skip-and-lookup-paths', [], len([p for p in paths if p.outcome == 'ok']) == 2)
    if not only or 'lookup' in only:
        tasks.append(('lookup', t_lookup_vt))
        chk.bounds.append('affinePointMultTable.SelectAndAdd (idx 0..15, identity mask, poison discarded) and hugeAffinePointMultTable.SelectAndAddVartime (idx 0..255): real code, symbolic index')

    # ---------------------------------------------------------------- 2b. window logic for every scalar
    def t_basemult(fn, alias_note=''):
        def task(sub):
            def h(ctx):
                log = {}
                m = gm(ctx)
                m.unwind = 80
                m.contracts[ATBL + 'SelectAndAdd'] = closed_form(m, ctx, log, 15, 'ct')
                m.contracts[HTBL + 'SelectAndAddVartime'] = closed_form(m, ctx, log, 255, 'vt')
                sl = sym_limbs('s')
                S = tm.lift(cat_limbs(sl), 256)
                ctx.assume(tm.ult(S, N, 256))
                s = X.Ptr(m.new_obj(None, tree=[[], list(sl)], label='s'), ())
                v = m.grp_new(GA.Lin({'OLD': z3.IntVal(1)}))      # arbitrary prior content of the receiver
                r = m.call(PT + fn, [v, s])
                sub.note_machine(m)
                got = m.grp_get(v)
                spec = 0
                if fn == 'ScalarBaseMult':
                    for j in range(64):
                        nib = tm.extract(S, 4 * j + 3, 4 * j)
                        spec = spec + z3.BV2Int(m.bvlow.lo(nib)) * (16 ** j)
                else:
                    for j in range(32):
                        by = tm.extract(S, 8 * j + 7, 8 * j)
                        spec = spec + z3.BV2Int(m.bvlow.lo(by)) * (256 ** j)
                pc = [m.bvlow.lo(c) for c in ctx.pc if isinstance(c, tm.T)]
                ctx.check(r.same(v), 'returns-receiver')
                ctx.check(tm.eq(tm.lift(cat_limbs(list(m.load(s)[1])), 256), S, 256), 'bv:scalar-unchanged')
                goal = z3.And([got.coeff('G') == spec] + [got.coeff(k) == 0 for k in got.c if k != 'G'] + [c for _, c in ctx.z3_checks])
                return (pc, goal, dict((k, len(v_)) for k, v_ in log.items()))
            paths = sub.explore('basemult/%s' % fn, h, mode='bv', max_paths=5000)
            for i, p in enumerate(paths):
                if p.outcome == 'ok' and p.value:
                    sub.add('basemult/%s/v=(sum of windows)*G=s*G#p%d' % (fn, i), p.value[0], p.value[1], mode='z3', timeout=300, meta={'lookups': p.value[2]})
            oks = [p for p in paths if p.outcome == 'ok']
            sub.add('basemult/%s/witness' % fn, [], len(oks) >= 1 and all(p.value for p in oks))
        return task
    if not only or 'basemult' in only:
        tasks.append(('basemult', t_basemult('ScalarBaseMult')))
        tasks.append(('basemult', t_basemult('scalarBaseMultVartime')))
        chk.bounds.append('ScalarBaseMult / scalarBaseMultVartime: all s in [0,n) (32 symbolic bytes: every nibble/byte value in every position, zero windows included), arbitrary prior receiver content')
        chk.notes.append('both lookups: portable Go executed here; the SSE2 routines are equal to them by C19')

    # ---------------------------------------------------------------- 3. every private scalar d is mapped to the public point d*G
    def t_keys(sub):
        from . import toy as T, stubs
        from .c20 import reachable
        toy = T.get_toy(43, 31)

        def h(ctx):
            stubs.NARROW['on'] = True
            m = new_machine(prog, ctx, gl, value_model=True)
            T.install(m, toy)
            d = tm.var('d', T.W)
            ctx.assume(tm.ult(d, toy.n, T.W))
            s_in = T.new_scalar(m, d)
            k, err = m.call(MOD + '/secec.NewPrivateKeyFromScalar', [s_in])
            sub.note_machine(m)
            if err is not None:
                ctx.check(tm.eq(d, 0, T.W), 'bv:error-only-for-d=0')
                return 'err'
            ctx.check(tm.bnot(tm.eq(d, 0, T.W)), 'bv:d=0-rejected')
            pub = T.fld(m, k, T.PRIV_T, 'publicKey')
            ctx.check(tm.eq(m.toy_pget(T.fld(m, pub, T.PUB_T, 'point')), d, T.W), 'bv:public-point=d*G')
            ctx.check(tm.eq(m.toy_sval(T.fld(m, k, T.PRIV_T, 'scalar')), d, T.W), 'bv:stored-scalar=d')
            from .common import cat_bytes
            want = [4] + T.be32(toy.X(d)) + T.be32(toy.Y(d))
            ctx.check(tm.eq(cat_bytes(m.slice_elems(T.fld(m, pub, T.PUB_T, 'pointBytes'))), cat_bytes(want), 520), 'bv:public-bytes=encoding-of-d*G')
            # the mapping must persist: the key does not share memory with the caller's scalar
            rk, rs = reachable(k), reachable(s_in)
            sh = [rk[i].label for i in rk if i in rs and not rk[i].is_global]
            ctx.check(not sh, 'key-does-not-alias-the-callers-scalar')
            return 'ok'
        paths = sub.explore('key/NewPrivateKeyFromScalar', h, mode='bv')
        sub.add('key/NewPrivateKeyFromScalar/witness', [], {p.value for p in paths} == {'ok', 'err'})
    if not only or 'key' in only:
        tasks.append(('keys', t_keys))
        chk.bounds.append('NewPrivateKeyFromScalar: toy curve (43,31), all d; public point, cached encoding, separation from the caller-owned scalar')

    # ---------------------------------------------------------------- 4. end to end at coordinate level on a toy curve
    # (coordinate-level code inside the fixed-base routines - an inline normalisation, a shortcut on Z, a hand-rolled copy - has
    #  no image in the abstract group; here the whole routine, point formulas and lookups included, runs on F_43 coordinates)
    def t_coord(fn, sym_pos, seed, prior, tail=1, zero_frac=0.3):
        from . import toy as T, toycoord as TC
        import random
        toy = T.get_toy(43, 31)
        width = 4 if fn == 'ScalarBaseMult' else 8

        def task(sub):
            def h(ctx):
                m, alg = TC.machine(prog, ctx, gl, toy)
                TC.install_generator_tables(m, toy)
                m.unwind = 80
                rng = random.Random(seed)
                # an affine table cannot hold the identity: entries (j+1)*256^i*G' with 31 | j+1 do not exist on the toy curve (on
                # secp256k1 no entry is the identity: (j+1)*256^i < n), so byte values 31, 62, ... are outside the bound
                fix = (lambda j, v: v + 1 if (v and v % toy.n == 0) else v) if width == 8 else None
                limbs, wins = TC.windowed_scalar('s', sym_pos, width, rng, tail=tail, fix=fix, zero_frac=zero_frac)
                if width == 8:
                    for w in wins:
                        if isinstance(w, tm.T):
                            ctx.assume(tm.bor(tm.eq(w, 0, 8), tm.bnot(tm.eq(tm.bv('urem', tm.zext(w, T.W), toy.n, T.W), 0, T.W))))
                s = TC.new_scalar(m, limbs)
                if prior == 'fresh':
                    v = X.Ptr(m.new_obj(prog.tid_by_str[MOD + '.Point'], label='v (zero value)'), ())
                else:
                    k0, l0 = tm.var('k0', T.W), tm.var('lam0', T.W)
                    ctx.assume(tm.ult(k0, toy.n, T.W))
                    ctx.assume(tm.band(tm.bnot(tm.eq(l0, 0, T.W)), tm.ult(l0, toy.p, T.W)))
                    # any valid point in any representation, with whatever an earlier use left in bookkeeping fields of the object
                    v = X.Ptr(TC.point(m, alg, toy, 'v', k0, l0, extra='any'), ())
                r = m.call(PT + fn, [v, s])
                sub.note_machine(m)
                want = TC.window_sum_mod(toy, wins, width)
                valid, k = TC.index_of(alg, toy, v.obj)
                ctx.check(r.same(v), 'returns-receiver')
                ctx.check(tm.eq(point_get(prog, v.obj, 'isValid'), True, 0), 'result-flagged-valid')
                ctx.check(valid, 'bv:result-is-a-valid-projective-point')
                ctx.check(tm.eq(k, want, T.W), 'bv:result=s*G')
                # ... and is that point as seen through the public encoders (whatever the receiver object was used for before)
                if zero_frac < 1:
                    return 'ok'     # (the encoder's inversion over a multi-window result term is expensive: short-scalar instances only)
                ub = m.slice_elems(m.call(PT + 'UncompressedBytes', [v]))
                if m.ctx.branch(tm.eq(want, 0, T.W)) if isinstance(want, tm.T) else (want == 0):
                    ctx.check(len(ub) == 1 and tm.eq(ub[0], 0, 8), 'bv:result-encodes-as-the-identity')
                else:
                    exp = [4] + T.be32(toy.X(want)) + T.be32(toy.Y(want))
                    ctx.check(len(ub) == 65 and tm.eq(cat_bytes(ub), cat_bytes(exp), 520), 'bv:UncompressedBytes(result)=encoding-of-s*G')
                return 'ok'
            lbl = 'coord/F_43/%s[sym windows %s, %s, receiver %s]' % (fn, ','.join(map(str, sorted(sym_pos))), 'others zero' if zero_frac >= 1 else 'seed %d' % seed, prior)
            paths = sub.explore(lbl, h, mode='bv', timeout=600, max_paths=400)
            sub.add(lbl + '/witness', [], any(p.outcome == 'ok' for p in paths))
        return task
    if only and 'encshort' in only and 'coord' not in only:
        # (for checks whose property speaks about encodings of computed points: the short-scalar instances with an arbitrary prior receiver)
        for fn, sp in (('ScalarBaseMult', (0,)), ('scalarBaseMultVartime', (31,))):
            tasks.append(('coord', t_coord(fn, set(sp), 0, 'any', tail=0, zero_frac=1.0)))
    if not only or 'coord' in only:
        grids = [((0,), 1, 'fresh'), ((0, 1), 2, 'any'), ((63,), 3, 'any'), ((5, 40), 4, 'fresh'), ((0, 31, 62), 5, 'any')]
        if chk.thorough:
            grids += [((a, b), 10 + a, 'any') for a in range(0, 64, 9) for b in (a + 1, 63 - a) if b != a and 0 <= b < 64]
        for sp, seed, prior in grids:
            tasks.append(('coord', t_coord('ScalarBaseMult', set(sp), seed + chk.seed, prior)))
        # short scalars, s = 0 included: one symbolic window, every other window zero
        for fn, sp in (('ScalarBaseMult', (0,)), ('ScalarBaseMult', (63,)), ('scalarBaseMultVartime', (0,)), ('scalarBaseMultVartime', (31,))):
            for prior in ('fresh', 'any'):
                tasks.append(('coord', t_coord(fn, set(sp), 0, prior, tail=0, zero_frac=1.0)))
        vgrids = [((0,), 1, 'fresh'), ((31,), 2, 'any'), ((17,), 3, 'any')]
        if chk.thorough:
            vgrids += [((3, 17), 3, 'any')] + [((a, 31 - a), 20 + a, 'any') for a in range(0, 16, 3)]
        for sp, seed, prior in vgrids:
            tasks.append(('coord', t_coord('scalarBaseMultVartime', set(sp), seed + chk.seed, prior)))
        chk.summaries.update(TC_SUMMARY())
        # a tree whose fixed-base routines work on coordinates directly has no image in the abstract group: then (and only then) the
        # claim for them is the coordinate-level one
        chk.breach_fallback = {'basemult': 'the coordinate-level tasks coord/F_43/* (toy curve, 1..3 symbolic windows per instance)'}
        chk.bounds.append('coordinate level, toy curve y^2=x^3+7 over F_43 (order 31): ScalarBaseMult / scalarBaseMultVartime executed end to end (real point '
                          'formulas, lookups, table casts) on 256-bit window strings with 1..3 symbolic windows (every value of each) at the listed positions and '
                          'the other windows concrete (seeded, ~30% zero); receiver fresh (zero value) or any valid point in any representation; '
                          'result must be a valid representative of (sum of windows) * G\' and flagged valid')
        chk.outside.append('coordinate level: more than 3 simultaneously symbolic windows; byte windows that are non-zero multiples of 31 in the vartime routine '
                           '(their toy table entry would be the identity, which an affine table cannot hold; no such entry exists on secp256k1)')

    return tasks


def TC_SUMMARY():
    from . import toycoord as TC
    return TC.SUMMARY


if __name__ == '__main__':
    from .common import run_main
    run_main(main)
