"""C01 / C02: the field (mod p) and scalar (mod n) rings.  Shared machinery, parametrised by the ring."""
import itertools
import z3
from .common import *  # noqa: F401,F403
from .common import tm, X, MOD, P_FIELD, N_ORDER, R256, limbs_of, sym_limbs, cat_limbs, cat_bytes, sym_bytes, new_machine

W64 = 2 ** 64


class Ring:
    def __init__(self, which):
        self.which = which
        if which == 'field':
            self.m = P_FIELD
            self.fiat = MOD + '/internal/fiat/secp256k1montgomery.'
            self.typ = MOD + '/internal/field.Element'
            self.meth = '(*' + MOD + '/internal/field.Element).'
            self.pkg = MOD + '/internal/field.'
            self.msat_global = MOD + '/internal/field.mSat'
        else:
            self.m = N_ORDER
            self.fiat = MOD + '/internal/fiat/secp256k1montgomeryscalar.'
            self.typ = MOD + '.Scalar'
            self.meth = '(*' + MOD + '.Scalar).'
            self.pkg = MOD + '.'
            self.msat_global = MOD + '.nSat'
        self.mprime = (-pow(self.m, -1, W64)) % W64
        self.R = R256 % self.m
        self.R2 = (R256 * R256) % self.m
        self.Rinv = pow(R256, -1, self.m)

    def mont(self, v):
        return v * R256 % self.m

    def unmont(self, v):
        return v * self.Rinv % self.m


def partitions(names):
    """all set partitions of a list of names -> list of dict name->class index"""
    names = list(names)
    out = []

    def rec(i, assign, k):
        if i == len(names):
            out.append(dict(zip(names, assign)))
            return
        for c in range(k + 1):
            rec(i + 1, assign + [c], max(k, c + 1))
    rec(0, [], 0)
    return out


def part_label(p):
    cls = {}
    for n, c in p.items():
        cls.setdefault(c, []).append(n)
    return '|'.join('='.join(v) for v in cls.values())


# ----------------------------------------------------------------------------------------------
# spec helpers over BV terms (written from the definition of arithmetic mod m, 258-bit headroom)
def spec_addmod(A, B, m):
    S = tm.bv('add', tm.zext(A, 258), tm.zext(B, 258), 258)
    return tm.ite(tm.ule(m, S, 258), tm.bv('sub', S, m, 258), S, 258)


def spec_submod(A, B, m):
    A2, B2 = tm.zext(A, 258), tm.zext(B, 258)
    return tm.ite(tm.ult(A2, B2, 258), tm.bv('sub', tm.bv('add', A2, m, 258), B2, 258), tm.bv('sub', A2, B2, 258), 258)


def spec_negmod(A, m):
    A2 = tm.zext(A, 258)
    return tm.ite(tm.eq(A2, 0, 258), 0, tm.bv('sub', m, A2, 258), 258)


def lift258(x):
    return tm.zext(x, 258) if tm.is_sym(x) else x


# ----------------------------------------------------------------------------------------------
def kernel_objs(m, part, shapes, symnames):
    """allocate one object per alias class; inputs get symbolic limbs named after the first member"""
    objs = {}
    vals = {}
    for name, c in part.items():
        if c not in objs:
            n = shapes[name]
            if name in symnames:
                l = sym_limbs(name, n)
            else:
                l = [tm.var('%s_pre_%d' % (name, i), 64) for i in range(n)]  # arbitrary prior content of outputs
            objs[c] = m.new_obj(None, tree=list(l), label=name)
            vals[c] = l
    return {n: X.Ptr(objs[c], ()) for n, c in part.items()}, {n: vals[c] for n, c in part.items()}


def linear_kernels(chk, prog, ring, gl):
    """Add/Sub/Opp/Selectznz/Nonzero/cmov/reduceSaturated/helpers: exact, all operand values, every alias partition.
    Decided twice: BV (exact Go semantics) in the thorough tier, int-blast (LIA) always."""
    m_ = ring.m
    F = ring.fiat
    modes = ['int', 'bv'] if chk.thorough else ['int']
    tag = ring.which

    def run(name, fn, harness, bvtimeout=300, **kw):
        def h(ctx):
            m = new_machine(prog, ctx, gl)
            harness(ctx, m)
            chk.note_machine(m)
        for mode in modes:
            chk.explore('%s/kernel/%s@%s' % (tag, name, mode), h, mode=mode, timeout=(bvtimeout if mode == 'bv' else 120), **kw)

    for fn, arity in (('Add', 2), ('Sub', 2), ('Opp', 1)):
        names = ['out', 'a', 'b'][:arity + 1]
        for part in partitions(names):
            def h(ctx, m, fn=fn, part=part, names=names):
                ptrs, vals = kernel_objs(m, part, {n: 4 for n in names}, set(names[1:]) | ({'out'} if part['out'] in [part[x] for x in names[1:]] else set()))
                A = cat_limbs(vals['a'])
                ctx.assume(tm.ult(A, m_, 256))
                if 'b' in vals:
                    B = cat_limbs(vals['b'])
                    ctx.assume(tm.ult(B, m_, 256))
                m.call(F + fn, [ptrs[n] for n in names])
                O = cat_limbs(list(ptrs['out'].obj.tree))
                spec = {'Add': lambda: spec_addmod(A, B, m_), 'Sub': lambda: spec_submod(A, B, m_), 'Opp': lambda: spec_negmod(A, m_)}[fn]()
                ctx.check(tm.ult(O, m_, 256), 'range')
                ctx.check(tm.eq(lift258(O), spec, 258), 'value')
                # inputs not aliased to out are unchanged
                for n in names[1:]:
                    if part[n] != part['out']:
                        ctx.check(tm.eq(cat_limbs(list(ptrs[n].obj.tree)), cat_limbs(vals[n]), 256), 'input-unchanged')
            run('%s[%s]' % (fn, part_label(part)), fn, h)

    # Selectznz(out, c, z, nz) with c in {0,1}
    for part in partitions(['out', 'z', 'nz']):
        def h(ctx, m, part=part):
            ptrs, vals = kernel_objs(m, part, {'out': 4, 'z': 4, 'nz': 4}, {'z', 'nz'} | ({'out'} if part['out'] in (part['z'], part['nz']) else set()))
            c = tm.zext(tm.var('c', 1), 64)  # documented precondition: arg1 in [0,1]
            m.call(F + 'Selectznz', [ptrs['out'], c, ptrs['z'], ptrs['nz']])
            O = cat_limbs(list(ptrs['out'].obj.tree))
            Z, NZ = cat_limbs(vals['z']), cat_limbs(vals['nz'])
            ctx.check(tm.eq(O, tm.ite(tm.eq(c, 0, 64), Z, NZ, 256), 256), 'value')
        run('Selectznz[%s]' % part_label(part), 'Selectznz', h)

    def h_cmov(ctx, m):
        o = m.new_obj(None, tree=[tm.var('pre', 64)])
        c, a, b = tm.zext(tm.var('c', 1), 64), tm.var('a', 64), tm.var('b', 64)
        m.call(F + 'cmovznzU64', [X.Ptr(o, (0,)), c, a, b])
        ctx.check(tm.eq(o.tree[0], tm.ite(tm.eq(c, 0, 64), a, b, 64), 64), 'value')
    run('cmovznzU64', 'cmovznzU64', h_cmov)

    def h_nonzero(ctx, m):
        o = m.new_obj(None, tree=[tm.var('pre', 64)])
        a = sym_limbs('a')
        oa = m.new_obj(None, tree=list(a))
        m.call(F + 'Nonzero', [X.Ptr(o, (0,)), X.Ptr(oa, ())])
        ctx.check(tm.eq(tm.eq(o.tree[0], 0, 64), tm.eq(cat_limbs(a), 0, 256), 0), 'zero-iff-zero')
    run('Nonzero', 'Nonzero', h_nonzero)

    def h_u1(ctx, m):
        u = tm.var('u', 64)
        r = m.call(F + 'Uint64ToUint1', [u])
        ctx.check(tm.eq(r, tm.ite(tm.eq(u, 0, 64), 0, 1, 64), 64), 'value')
    run('Uint64ToUint1', 'Uint64ToUint1', h_u1)

    # ground: SetOne = R mod m, Msat = m
    def h_const(ctx, m):
        o = m.new_obj(None, tree=[tm.var('pre%d' % i, 64) for i in range(4)])
        m.call(F + 'SetOne', [X.Ptr(o, ())])
        ctx.check(tm.eq(cat_limbs(list(o.tree)), ring.R, 256), 'SetOne=R mod m')
        o5 = m.new_obj(None, tree=[tm.var('pre5%d' % i, 64) for i in range(5)])
        m.call(F + 'Msat', [X.Ptr(o5, ())])
        ctx.check(tm.eq(cat_limbs(list(o5.tree)), m_, 320), 'Msat=m')
        g = m.load(m.global_ptr(ring.msat_global))
        ctx.check(tm.eq(cat_limbs(list(g)), m_, 320), 'package msat = m')
    run('constants', 'SetOne', h_const)

    # reduceSaturated(dst, src): flag = src>=m ; dst = src - flag*m   (src any 256-bit value; dst may alias src)
    for part in partitions(['dst', 'src']):
        def h(ctx, m, part=part):
            ptrs, vals = kernel_objs(m, part, {'dst': 4, 'src': 4}, {'src'} | ({'dst'} if part['dst'] == part['src'] else set()))
            S = cat_limbs(vals['src'])
            r = m.call(ring.pkg + 'reduceSaturated', [ptrs['dst'], ptrs['src']])
            D = cat_limbs(list(ptrs['dst'].obj.tree))
            ge = tm.ule(m_, S, 256)
            ctx.check(tm.eq(r, tm.ite(ge, 1, 0, 64), 64), 'flag')
            ctx.check(tm.eq(D, tm.ite(ge, tm.bv('sub', S, m_, 256), S, 256), 256), 'value')
            ctx.check(tm.ult(D, m_, 256), 'range')   # holds because 2m > 2^256
        run('reduceSaturated[%s]' % part_label(part), 'reduceSaturated', h)

    if ring.which == 'field':
        H = MOD + '/internal/helpers.'

        def h_helpers(ctx, m):
            u, v = tm.var('u', 64), tm.var('v', 64)
            ctx.check(tm.eq(m.call(H + 'Uint64IsZero', [u]), tm.ite(tm.eq(u, 0, 64), 1, 0, 64), 64), 'Uint64IsZero')
            ctx.check(tm.eq(m.call(H + 'Uint64IsNonzero', [u]), tm.ite(tm.eq(u, 0, 64), 0, 1, 64), 64), 'Uint64IsNonzero')
            ctx.check(tm.eq(m.call(H + 'Uint64Equal', [u, v]), tm.ite(tm.eq(u, v, 64), 1, 0, 64), 64), 'Uint64Equal')
            a, b = sym_limbs('a'), sym_limbs('b')
            oa, ob = m.new_obj(None, tree=list(a)), m.new_obj(None, tree=list(b))
            r = m.call(H + 'FiatLimbsAreEqual', [X.Ptr(oa, ()), X.Ptr(ob, ())])
            ctx.check(tm.eq(r, tm.ite(tm.eq(cat_limbs(a), cat_limbs(b), 256), 1, 0, 64), 64), 'FiatLimbsAreEqual')
            r = m.call(H + 'FiatLimbsAreEqual', [X.Ptr(oa, ()), X.Ptr(oa, ())])
            ctx.check(tm.eq(r, 1, 64), 'FiatLimbsAreEqual-self')
            bs = sym_bytes('s', 32)
            osrc = m.new_obj(None, tree=list(bs))
            l = m.call(H + 'BytesToSaturated', [X.Ptr(osrc, ())])
            ctx.check(tm.eq(cat_limbs(list(l)), cat_bytes(bs), 256), 'bv:BytesToSaturated')
            od = m.new_obj(None, tree=[tm.var('pre%d' % i, 8) for i in range(32)])
            sl = m.call(H + 'PutSaturatedToBytes', [X.Ptr(od, ()), X.Ptr(oa, ())])
            ctx.check(tm.eq(cat_bytes(m.slice_elems(sl)), cat_limbs(a), 256), 'bv:PutSaturatedToBytes')
            ctx.check(sl.len == 32 and sl.obj is od, 'PutSaturatedToBytes-returns-dst')
        run('helpers', 'helpers', h_helpers)


# ----------------------------------------------------------------------------------------------
def _collect(ts):
    seen = {}
    stack = [t for t in ts if isinstance(t, tm.T)]
    while stack:
        n = stack.pop()
        if n.id in seen:
            continue
        seen[n.id] = n
        stack.extend(n.args)
    return seen


def mont_structure(outs, mprime):
    """find in the DAG of the outputs: (a) the Montgomery quotient digits m_i = lo(Mul64(t, m')) used as
    untrusted witnesses, (b) the 65-bit sums of which the code keeps only the carry (their low word is
    claimed to be 0 and proved separately in BV)."""
    nodes = _collect(outs)
    wit = []
    uses = {}
    for n in nodes.values():
        if n.op == 'extract':
            src = n.args[0]
            uses.setdefault(src.id, set()).add(n.val)
            if n.val == (63, 0) and src.op == 'mul' and src.w == 128:
                if any(a.op == 'const' and a.val == mprime for a in src.args):
                    wit.append(n)
    wit.sort(key=lambda n: n.id)
    carry_only = []
    for n in nodes.values():
        if n.op == 'add' and n.w == 65 and uses.get(n.id) == {(64, 64)}:
            carry_only.append(n)
    carry_only.sort(key=lambda n: n.id)
    return wit, carry_only


def mult_kernels(chk, prog, ring, gl):
    m_ = ring.m
    F = ring.fiat
    tag = ring.which
    timeout = 600 if chk.thorough else 300
    cases = []
    for part in partitions(['out', 'a', 'b']):
        cases.append(('Mul', part))
    for part in partitions(['out', 'a']):
        cases.append(('Square', part))
        cases.append(('ToMontgomery', part))
        cases.append(('FromMontgomery', part))

    for fn, part in cases:
        label = '%s/kernel/%s[%s]' % (tag, fn, part_label(part))
        st = {}

        def h(ctx, fn=fn, part=part, st=st):
            m = new_machine(prog, ctx, gl)
            names = list(part)
            ptrs, vals = kernel_objs(m, part, {n: 4 for n in names}, set(names[1:]) | ({'out'} if part['out'] in [part[x] for x in names[1:]] else set()))
            A = cat_limbs(vals['a'])
            # documented precondition 0 <= eval arg < m (ToMontgomery/FromMontgomery as well)
            ctx.assume(tm.ult(A, m_, 256))
            if 'b' in vals:
                ctx.assume(tm.ult(cat_limbs(vals['b']), m_, 256))
            m.call(F + fn, [ptrs[n] for n in names])
            out = list(ptrs['out'].obj.tree)
            st['out'] = out
            st['a'] = vals['a']
            st['b'] = vals.get('b', vals['a'])
            st['pc'] = list(ctx.pc)
            ctx.check(tm.ult(cat_limbs(out), m_, 256), 'range')
            chk.note_machine(m)

        wit_holder = {}

        def extra(L, st=st, fn=fn, wh=wit_holder):
            cs = []
            # lemma import: discarded low words are zero (each proved in BV below)
            for n in wh['carry_only']:
                cs.append(L.lo(tm.extract(n, 63, 0)) == 0)
            if fn in ('Mul', 'Square'):
                a, b = st['a'], st['b']
                for i in range(4):
                    row = 0
                    ok = True
                    for j in range(4):
                        pv = L.product(a[i], b[j])
                        if pv is None:
                            ok = False
                            break
                        row = row + pv * (W64 ** j)
                    if ok:
                        cs.append(row <= (W64 - 1) * (m_ - 1))
            return cs

        def goal(L, st=st, fn=fn, wh=wit_holder):
            out, a, b = st['out'], st['a'], st['b']
            O = sum(L.lo(out[i]) * (W64 ** i) for i in range(4))
            Aint = sum(L.lo(a[i]) * (W64 ** i) for i in range(4))
            if fn in ('Mul', 'Square'):
                AB = 0
                for i in range(4):
                    for j in range(4):
                        pv = L.product(a[i], b[j])
                        if pv is None:
                            raise RuntimeError("product a%d*b%d not found in the encoding" % (i, j))
                        AB = AB + pv * (W64 ** (i + j))
            elif fn == 'ToMontgomery':
                AB = Aint * ring.R2
            else:
                AB = Aint
            M = sum(L.lo(w) * (W64 ** i) for i, w in enumerate(wh['wit']))
            return z3.Or(O * R256 == AB + M * m_, O * R256 + m_ * R256 == AB + M * m_)

        paths = chk.explore(label, h, mode='int', timeout=timeout, extra_int=extra)
        if len(paths) != 1 or paths[0].outcome != 'ok':
            continue
        wit, carry_only = mont_structure(st['out'], ring.mprime)
        wit_holder['wit'] = wit
        wit_holder['carry_only'] = carry_only
        if len(wit) != 4:
            # structure not recognised: identity cannot be stated -> unproven obligation
            chk.add(label + '/montgomery-structure', st['pc'], False, meta={'witnesses_found': len(wit)})
            continue
        for k, n in enumerate(carry_only):
            chk.add('%s/lowword-zero-%d' % (label, k), [], tm.eq(tm.extract(n, 63, 0), 0, 64), mode='bv', timeout=120)
        chk.add(label + '/montgomery-identity', st['pc'], None, mode='int', timeout=timeout, extra_int=extra, int_goal=goal)
