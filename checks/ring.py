"""C01 / C02: the field (mod p) and scalar (mod n) rings.  Shared machinery, parametrised by the ring."""
import itertools
import z3
from .common import *  # noqa: F401,F403
from .common import tm, X, MOD, P_FIELD, N_ORDER, R256, limbs_of, sym_limbs, cat_limbs, cat_bytes, sym_bytes, new_machine, int_of_limbs

W64 = 2 ** 64


class Ring:
    def __init__(self, which):
        self.which = which
        if which == 'field':
            self.m = P_FIELD
            self.fiat = MOD + '/internal/fiat/secp256k1montgomery.'
            self.typ = MOD + '/internal/field.Element'
            self.meth = '(*' + MOD + '/internal/field.Element).'
            self.pkg = MOD + '/internal/field.'
            self.msat_global = MOD + '/internal/field.mSat'
        else:
            self.m = N_ORDER
            self.fiat = MOD + '/internal/fiat/secp256k1montgomeryscalar.'
            self.typ = MOD + '.Scalar'
            self.meth = '(*' + MOD + '.Scalar).'
            self.pkg = MOD + '.'
            self.msat_global = MOD + '.nSat'
        self.mprime = (-pow(self.m, -1, W64)) % W64
        self.R = R256 % self.m
        self.R2 = (R256 * R256) % self.m
        self.Rinv = pow(R256, -1, self.m)

    def mont(self, v):
        return v * R256 % self.m

    def unmont(self, v):
        return v * self.Rinv % self.m


def partitions(names):
    """all set partitions of a list of names -> list of dict name->class index"""
    names = list(names)
    out = []

    def rec(i, assign, k):
        if i == len(names):
            out.append(dict(zip(names, assign)))
            return
        for c in range(k + 1):
            rec(i + 1, assign + [c], max(k, c + 1))
    rec(0, [], 0)
    return out


def part_label(p):
    cls = {}
    for n, c in p.items():
        cls.setdefault(c, []).append(n)
    return '|'.join('='.join(v) for v in cls.values())


# ----------------------------------------------------------------------------------------------
# spec helpers over BV terms (written from the definition of arithmetic mod m, 258-bit headroom)
def spec_addmod(A, B, m):
    S = tm.bv('add', tm.zext(A, 258), tm.zext(B, 258), 258)
    return tm.ite(tm.ule(m, S, 258), tm.bv('sub', S, m, 258), S, 258)


def spec_submod(A, B, m):
    A2, B2 = tm.zext(A, 258), tm.zext(B, 258)
    return tm.ite(tm.ult(A2, B2, 258), tm.bv('sub', tm.bv('add', A2, m, 258), B2, 258), tm.bv('sub', A2, B2, 258), 258)


def spec_negmod(A, m):
    A2 = tm.zext(A, 258)
    return tm.ite(tm.eq(A2, 0, 258), 0, tm.bv('sub', m, A2, 258), 258)


def lift258(x):
    return tm.zext(x, 258) if tm.is_sym(x) else x


# ----------------------------------------------------------------------------------------------
def kernel_objs(m, part, shapes, symnames):
    """allocate one object per alias class; an object that holds an input is named after that input (so that an
    alias-safe kernel yields the SAME terms - and the same SMT problem - for every alias partition), a pure output gets
    arbitrary prior content"""
    objs = {}
    vals = {}
    names = list(part)
    for name, c in part.items():
        if c not in objs:
            n = shapes[name]
            members = [x for x in names if part[x] == c]
            inputs = [x for x in members if x in symnames and x != 'out' and x != 'dst' and x != 'fe']
            if inputs:
                l = sym_limbs(inputs[0], n)
            elif name in symnames:
                l = sym_limbs(name, n)
            else:
                l = [tm.var('%s_pre_%d' % (name, i), 64) for i in range(n)]  # arbitrary prior content of outputs
            objs[c] = m.new_obj(None, tree=list(l), label=name)
            vals[c] = l
    return {n: X.Ptr(objs[c], ()) for n, c in part.items()}, {n: vals[c] for n, c in part.items()}


def linear_kernels(chk, prog, ring, gl):
    """Add/Sub/Opp/Selectznz/Nonzero/cmov/reduceSaturated/helpers: exact, all operand values, every alias partition.
    Decided twice: BV (exact Go semantics) in the thorough tier, int-blast (LIA) always."""
    m_ = ring.m
    F = ring.fiat
    modes = ['int', 'bv'] if chk.thorough else ['int']
    tag = ring.which

    def run(name, fn, harness, bvtimeout=300, **kw):
        def h(ctx):
            m = new_machine(prog, ctx, gl)
            harness(ctx, m)
            chk.note_machine(m)
        for mode in modes:
            chk.explore('%s/kernel/%s@%s' % (tag, name, mode), h, mode=mode, timeout=(bvtimeout if mode == 'bv' else 120), **kw)

    for fn, arity in (('Add', 2), ('Sub', 2), ('Opp', 1)):
        names = ['out', 'a', 'b'][:arity + 1]
        for part in partitions(names):
            def h(ctx, m, fn=fn, part=part, names=names):
                ptrs, vals = kernel_objs(m, part, {n: 4 for n in names}, set(names[1:]) | ({'out'} if part['out'] in [part[x] for x in names[1:]] else set()))
                A = cat_limbs(vals['a'])
                ctx.assume(tm.ult(A, m_, 256))
                if 'b' in vals:
                    B = cat_limbs(vals['b'])
                    ctx.assume(tm.ult(B, m_, 256))
                m.call(F + fn, [ptrs[n] for n in names])
                O = cat_limbs(list(ptrs['out'].obj.tree))
                spec = {'Add': lambda: spec_addmod(A, B, m_), 'Sub': lambda: spec_submod(A, B, m_), 'Opp': lambda: spec_negmod(A, m_)}[fn]()
                ctx.check(tm.ult(O, m_, 256), 'range')
                ctx.check(tm.eq(lift258(O), spec, 258), 'value')
                # inputs not aliased to out are unchanged
                for n in names[1:]:
                    if part[n] != part['out']:
                        ctx.check(tm.eq(cat_limbs(list(ptrs[n].obj.tree)), cat_limbs(vals[n]), 256), 'input-unchanged')
            run('%s[%s]' % (fn, part_label(part)), fn, h)

    # Selectznz(out, c, z, nz) with c in {0,1}
    for part in partitions(['out', 'z', 'nz']):
        def h(ctx, m, part=part):
            ptrs, vals = kernel_objs(m, part, {'out': 4, 'z': 4, 'nz': 4}, {'z', 'nz'} | ({'out'} if part['out'] in (part['z'], part['nz']) else set()))
            c = tm.zext(tm.var('c', 1), 64)  # documented precondition: arg1 in [0,1]
            m.call(F + 'Selectznz', [ptrs['out'], c, ptrs['z'], ptrs['nz']])
            O = cat_limbs(list(ptrs['out'].obj.tree))
            Z, NZ = cat_limbs(vals['z']), cat_limbs(vals['nz'])
            ctx.check(tm.eq(O, tm.ite(tm.eq(c, 0, 64), Z, NZ, 256), 256), 'value')
        run('Selectznz[%s]' % part_label(part), 'Selectznz', h)

    def h_cmov(ctx, m):
        o = m.new_obj(None, tree=[tm.var('pre', 64)])
        c, a, b = tm.zext(tm.var('c', 1), 64), tm.var('a', 64), tm.var('b', 64)
        m.call(F + 'cmovznzU64', [X.Ptr(o, (0,)), c, a, b])
        ctx.check(tm.eq(o.tree[0], tm.ite(tm.eq(c, 0, 64), a, b, 64), 64), 'value')
    run('cmovznzU64', 'cmovznzU64', h_cmov)

    def h_nonzero(ctx, m):
        o = m.new_obj(None, tree=[tm.var('pre', 64)])
        a = sym_limbs('a')
        oa = m.new_obj(None, tree=list(a))
        m.call(F + 'Nonzero', [X.Ptr(o, (0,)), X.Ptr(oa, ())])
        ctx.check(tm.eq(tm.eq(o.tree[0], 0, 64), tm.eq(cat_limbs(a), 0, 256), 0), 'zero-iff-zero')
    run('Nonzero', 'Nonzero', h_nonzero)

    def h_u1(ctx, m):
        u = tm.var('u', 64)
        r = m.call(F + 'Uint64ToUint1', [u])
        ctx.check(tm.eq(r, tm.ite(tm.eq(u, 0, 64), 0, 1, 64), 64), 'value')
    run('Uint64ToUint1', 'Uint64ToUint1', h_u1)

    # ground: SetOne = R mod m, Msat = m
    def h_const(ctx, m):
        o = m.new_obj(None, tree=[tm.var('pre%d' % i, 64) for i in range(4)])
        m.call(F + 'SetOne', [X.Ptr(o, ())])
        ctx.check(tm.eq(cat_limbs(list(o.tree)), ring.R, 256), 'SetOne=R mod m')
        o5 = m.new_obj(None, tree=[tm.var('pre5%d' % i, 64) for i in range(5)])
        m.call(F + 'Msat', [X.Ptr(o5, ())])
        ctx.check(tm.eq(cat_limbs(list(o5.tree)), m_, 320), 'Msat=m')
        g = m.load(m.global_ptr(ring.msat_global))
        ctx.check(tm.eq(cat_limbs(list(g)), m_, 320), 'package msat = m')
    run('constants', 'SetOne', h_const)

    # reduceSaturated(dst, src): flag = src>=m ; dst = src - flag*m   (src any 256-bit value; dst may alias src)
    for part in partitions(['dst', 'src']):
        def h(ctx, m, part=part):
            ptrs, vals = kernel_objs(m, part, {'dst': 4, 'src': 4}, {'src'} | ({'dst'} if part['dst'] == part['src'] else set()))
            S = cat_limbs(vals['src'])
            r = m.call(ring.pkg + 'reduceSaturated', [ptrs['dst'], ptrs['src']])
            D = cat_limbs(list(ptrs['dst'].obj.tree))
            ge = tm.ule(m_, S, 256)
            ctx.check(tm.eq(r, tm.ite(ge, 1, 0, 64), 64), 'flag')
            ctx.check(tm.eq(D, tm.ite(ge, tm.bv('sub', S, m_, 256), S, 256), 256), 'value')
            ctx.check(tm.ult(D, m_, 256), 'range')   # holds because 2m > 2^256
        run('reduceSaturated[%s]' % part_label(part), 'reduceSaturated', h)

    if ring.which == 'field':
        H = MOD + '/internal/helpers.'

        def h_helpers(ctx, m):
            u, v = tm.var('u', 64), tm.var('v', 64)
            ctx.check(tm.eq(m.call(H + 'Uint64IsZero', [u]), tm.ite(tm.eq(u, 0, 64), 1, 0, 64), 64), 'Uint64IsZero')
            ctx.check(tm.eq(m.call(H + 'Uint64IsNonzero', [u]), tm.ite(tm.eq(u, 0, 64), 0, 1, 64), 64), 'Uint64IsNonzero')
            ctx.check(tm.eq(m.call(H + 'Uint64Equal', [u, v]), tm.ite(tm.eq(u, v, 64), 1, 0, 64), 64), 'Uint64Equal')
            a, b = sym_limbs('a'), sym_limbs('b')
            oa, ob = m.new_obj(None, tree=list(a)), m.new_obj(None, tree=list(b))
            r = m.call(H + 'FiatLimbsAreEqual', [X.Ptr(oa, ()), X.Ptr(ob, ())])
            ctx.check(tm.eq(r, tm.ite(tm.eq(cat_limbs(a), cat_limbs(b), 256), 1, 0, 64), 64), 'FiatLimbsAreEqual')
            r = m.call(H + 'FiatLimbsAreEqual', [X.Ptr(oa, ()), X.Ptr(oa, ())])
            ctx.check(tm.eq(r, 1, 64), 'FiatLimbsAreEqual-self')
            bs = sym_bytes('s', 32)
            osrc = m.new_obj(None, tree=list(bs))
            l = m.call(H + 'BytesToSaturated', [X.Ptr(osrc, ())])
            ctx.check(tm.eq(cat_limbs(list(l)), cat_bytes(bs), 256), 'bv:BytesToSaturated')
            od = m.new_obj(None, tree=[tm.var('pre%d' % i, 8) for i in range(32)])
            sl = m.call(H + 'PutSaturatedToBytes', [X.Ptr(od, ()), X.Ptr(oa, ())])
            ctx.check(tm.eq(cat_bytes(m.slice_elems(sl)), cat_limbs(a), 256), 'bv:PutSaturatedToBytes')
            ctx.check(sl.len == 32 and sl.obj is od, 'PutSaturatedToBytes-returns-dst')
        run('helpers', 'helpers', h_helpers)


# ----------------------------------------------------------------------------------------------
def _collect(ts):
    seen = {}
    stack = [t for t in ts if isinstance(t, tm.T)]
    while stack:
        n = stack.pop()
        if n.id in seen:
            continue
        seen[n.id] = n
        stack.extend(n.args)
    return seen


def mont_structure(outs, mprime):
    """find in the DAG of the outputs: (a) the Montgomery quotient digits m_i = lo(Mul64(t, m')) used as
    untrusted witnesses, (b) the 65-bit sums of which the code keeps only the carry (their low word is
    claimed to be 0 and proved separately in BV)."""
    nodes = _collect(outs)
    wit = []
    uses = {}
    for n in nodes.values():
        if n.op == 'extract':
            src = n.args[0]
            uses.setdefault(src.id, set()).add(n.val)
            if n.val == (63, 0) and src.op == 'mul' and src.w == 128:
                if any(a.op == 'const' and a.val == mprime for a in src.args):
                    wit.append(n)
    wit.sort(key=lambda n: n.id)
    carry_only = []
    for n in nodes.values():
        if n.op == 'add' and n.w == 65 and uses.get(n.id) == {(64, 64)}:
            carry_only.append(n)
    carry_only.sort(key=lambda n: n.id)
    return wit, carry_only


def mult_kernels(chk, prog, ring, gl):
    m_ = ring.m
    F = ring.fiat
    tag = ring.which
    timeout = 2400   # probed 10-170 s on an idle machine, up to 450 s with 20 busy processes on 16 cores; generous margin against load
    cases = []
    for part in partitions(['out', 'a', 'b']):
        cases.append(('Mul', part))
    for part in partitions(['out', 'a']):
        cases.append(('Square', part))
        cases.append(('ToMontgomery', part))
        cases.append(('FromMontgomery', part))

    for fn, part in cases:
        label = '%s/kernel/%s[%s]' % (tag, fn, part_label(part))
        st = {}

        def h(ctx, fn=fn, part=part, st=st):
            m = new_machine(prog, ctx, gl)
            names = list(part)
            ptrs, vals = kernel_objs(m, part, {n: 4 for n in names}, set(names[1:]) | ({'out'} if part['out'] in [part[x] for x in names[1:]] else set()))
            A = cat_limbs(vals['a'])
            # documented precondition 0 <= eval arg < m (ToMontgomery/FromMontgomery as well)
            ctx.assume(tm.ult(A, m_, 256))
            if 'b' in vals:
                ctx.assume(tm.ult(cat_limbs(vals['b']), m_, 256))
            m.call(F + fn, [ptrs[n] for n in names])
            out = list(ptrs['out'].obj.tree)
            st['out'] = out
            st['a'] = vals['a']
            st['b'] = vals.get('b', vals['a'])
            st['pc'] = list(ctx.pc)
            ctx.check(tm.ult(cat_limbs(out), m_, 256), 'range')
            chk.note_machine(m)

        wit_holder = {}

        def extra(L, st=st, fn=fn, wh=wit_holder):
            cs = []
            # lemma import: discarded low words are zero (each proved in BV below)
            for n in wh['carry_only']:
                cs.append(L.lo(tm.extract(n, 63, 0)) == 0)
            if fn == 'ToMontgomery' and min(limbs_of(ring.R2)) > 1:
                r2 = limbs_of(ring.R2)
                for i in range(4):
                    row = 0
                    ok = True
                    for j in range(4):
                        pv = L.product_const(st['a'][i], r2[j])
                        if pv is None:
                            ok = False
                            break
                        row = row + pv * (W64 ** j)
                    if ok:
                        cs.append(row <= (W64 - 1) * (m_ - 1))
            if fn in ('Mul', 'Square'):
                a, b = st['a'], st['b']
                for i in range(4):
                    row = 0
                    ok = True
                    for j in range(4):
                        pv = L.product(a[i], b[j])
                        if pv is None:
                            ok = False
                            break
                        row = row + pv * (W64 ** j)
                    if ok:
                        cs.append(row <= (W64 - 1) * (m_ - 1))
            return cs

        def goal(L, st=st, fn=fn, wh=wit_holder):
            out, a, b = st['out'], st['a'], st['b']
            O = sum(L.lo(out[i]) * (W64 ** i) for i in range(4))
            Aint = sum(L.lo(a[i]) * (W64 ** i) for i in range(4))
            if fn in ('Mul', 'Square'):
                AB = 0
                for i in range(4):
                    for j in range(4):
                        pv = L.product(a[i], b[j])
                        if pv is None:
                            raise RuntimeError("product a%d*b%d not found in the encoding" % (i, j))
                        AB = AB + pv * (W64 ** (i + j))
            elif fn == 'ToMontgomery' and min(limbs_of(ring.R2)) <= 1:
                AB = Aint * ring.R2
            elif fn == 'ToMontgomery':
                # x * (R^2 mod m) as the bilinear form of opaque limb products (exact big-coefficient LIA does not finish for n)
                r2 = limbs_of(ring.R2)
                AB = 0
                for i in range(4):
                    for j in range(4):
                        pv = L.product_const(a[i], r2[j])
                        if pv is None:
                            raise RuntimeError("product a%d*R2_%d not found in the encoding" % (i, j))
                        AB = AB + pv * (W64 ** (i + j))
            else:
                AB = Aint
            M = sum(L.lo(w) * (W64 ** i) for i, w in enumerate(wh['wit']))
            return z3.Or(O * R256 == AB + M * m_, O * R256 + m_ * R256 == AB + M * m_)

        # (for p, R^2 mod p = 2^64 + 0x7a2000e90a1 has limbs 1 and 0 which the code's products fold away: exact encoding is used there)
        opaque_r2 = fn == 'ToMontgomery' and min(limbs_of(ring.R2)) > 1
        iopts = {'opaque_consts': set(limbs_of(ring.R2))} if opaque_r2 else None
        paths = chk.explore(label, h, mode='int', timeout=timeout, extra_int=extra, int_opts=iopts)
        if len(paths) != 1 or paths[0].outcome != 'ok':
            continue
        wit, carry_only = mont_structure(st['out'], ring.mprime)
        wit_holder['wit'] = wit
        wit_holder['carry_only'] = carry_only
        if len(wit) != 4:
            # structure not recognised: identity cannot be stated -> unproven obligation
            chk.add(label + '/montgomery-structure', st['pc'], False, meta={'witnesses_found': len(wit)})
            continue
        for k, n in enumerate(carry_only):
            chk.add('%s/lowword-zero-%d' % (label, k), [], tm.eq(tm.extract(n, 63, 0), 0, 64), mode='bv', timeout=120)
        chk.add(label + '/montgomery-identity', st['pc'], None, mode='int', timeout=timeout, extra_int=extra, int_goal=goal, int_opts=iopts)


# ==============================================================================================
# Method level (Element / Scalar): the multiplicative kernels are OPAQUE here (uninterpreted
# functions of the 256-bit limb value), so nothing about Montgomery form can be exploited: a method
# that inspected Montgomery limbs directly (parity, comparison, encoding without conversion) would
# not match its specification.  Meaning of the UFs comes from the kernel obligations above.
def install_uf_kernels(m, ring):
    F = ring.fiat
    tag = ring.which

    def ld(p):
        return tm.lift(cat_limbs(list(m.load(p))), 256)

    def st(p, v):
        m.store(p, [tm.extract(v, 64 * i + 63, 64 * i) if isinstance(v, tm.T) else (v >> (64 * i)) & (W64 - 1) for i in range(4)])

    def mulM(a, b):
        from .models import comm_uf
        return comm_uf('mulM_' + tag, a, b)
    C = m.contracts
    C[F + 'Mul'] = lambda m, a: st(a[0], mulM(ld(a[1]), ld(a[2])))
    C[F + 'Square'] = lambda m, a: st(a[0], mulM(ld(a[1]), ld(a[1])))
    C[F + 'ToMontgomery'] = lambda m, a: st(a[0], tm.uf('toM_' + tag, [ld(a[1])], 256))
    C[F + 'FromMontgomery'] = lambda m, a: st(a[0], tm.uf('fromM_' + tag, [ld(a[1])], 256))
    C[F + 'Add'] = lambda m, a: st(a[0], tm.trunc(spec_addmod(ld(a[1]), ld(a[2]), ring.m), 256))
    C[F + 'Sub'] = lambda m, a: st(a[0], tm.trunc(spec_submod(ld(a[1]), ld(a[2]), ring.m), 256))
    C[F + 'Opp'] = lambda m, a: st(a[0], tm.trunc(spec_negmod(ld(a[1]), ring.m), 256))
    C[F + 'SetOne'] = lambda m, a: st(a[0], ring.R)
    return mulM


UF_KERNEL_SUMMARY = {
    'fiat.{Mul,Square,ToMontgomery,FromMontgomery} (method level)': 'opaque uninterpreted functions of the limb value; meaning supplied by kernel/*/{range,montgomery-identity}',
    'fiat.{Add,Sub,Opp,SetOne}': 'closed forms discharged by kernel/{Add,Sub,Opp}/{range,value}, kernel/constants',
}


def elem_obj(m, ring, limbs):
    return m.new_obj(None, tree=[[], list(limbs)], label=ring.which + '-element')


def elem_limbs(ptr):
    return list(ptr.obj.tree[1])


def methods(chk, prog, ring, gl):
    M = ring.meth
    m_ = ring.m
    tag = ring.which
    chk.summaries.update(UF_KERNEL_SUMMARY)

    def with_machine(fn):
        def h(ctx):
            m = new_machine(prog, ctx, gl)
            mulM = install_uf_kernels(m, ring)
            r = fn(ctx, m, mulM)
            chk.note_machine(m)
            return r
        return h

    def objs_for(m, part, names):
        objs = {}
        for n in names:
            c = part[n]
            if c not in objs:
                objs[c] = elem_obj(m, ring, sym_limbs(n))
        return {n: X.Ptr(objs[part[n]], ()) for n in names}, {n: tm.lift(cat_limbs([tm.var('%s_%d' % ([k for k in names if part[k] == part[n]][0], i), 64) for i in range(4)]), 256) for n in names}

    def V(ptr):
        return tm.lift(cat_limbs(elem_limbs(ptr)), 256)

    # ---- binary / unary ring operations, every alias partition of (receiver, a, b)
    binops = {'Add': lambda A, B, mulM: tm.trunc(spec_addmod(A, B, m_), 256),
              'Subtract': lambda A, B, mulM: tm.trunc(spec_submod(A, B, m_), 256),
              'Multiply': lambda A, B, mulM: mulM(A, B)}
    for name, spec in binops.items():
        for part in partitions(['fe', 'a', 'b']):
            def f(ctx, m, mulM, name=name, spec=spec, part=part):
                ptrs, vals = objs_for(m, part, ['fe', 'a', 'b'])
                r = m.call(M + name, [ptrs['fe'], ptrs['a'], ptrs['b']])
                ctx.check(r.same(ptrs['fe']), 'returns-receiver')
                ctx.check(tm.eq(V(ptrs['fe']), spec(vals['a'], vals['b'], mulM), 256), 'bv:value')
                for n in ('a', 'b'):
                    if part[n] != part['fe']:
                        ctx.check(tm.eq(V(ptrs[n]), vals[n], 256), 'bv:operand-unchanged')
            chk.explore('%s/method/%s[%s]' % (tag, name, part_label(part)), with_machine(f), mode='bv')
    unops = {'Negate': lambda A, mulM: tm.trunc(spec_negmod(A, m_), 256),
             'Square': lambda A, mulM: mulM(A, A),
             'Set': lambda A, mulM: A}
    for name, spec in unops.items():
        for part in partitions(['fe', 'a']):
            def f(ctx, m, mulM, name=name, spec=spec, part=part):
                ptrs, vals = objs_for(m, part, ['fe', 'a'])
                r = m.call(M + name, [ptrs['fe'], ptrs['a']])
                ctx.check(r.same(ptrs['fe']), 'returns-receiver')
                ctx.check(tm.eq(V(ptrs['fe']), spec(vals['a'], mulM), 256), 'bv:value')
                if part['a'] != part['fe']:
                    ctx.check(tm.eq(V(ptrs['a']), vals['a'], 256), 'bv:operand-unchanged')
            chk.explore('%s/method/%s[%s]' % (tag, name, part_label(part)), with_machine(f), mode='bv')

    def f_zero_one(ctx, m, mulM):
        o = elem_obj(m, ring, sym_limbs('pre'))
        m.call(M + 'Zero', [X.Ptr(o, ())])
        ctx.check(tm.eq(V(X.Ptr(o, ())), 0, 256), 'bv:Zero')
        o = elem_obj(m, ring, sym_limbs('pre2'))
        m.call(M + 'One', [X.Ptr(o, ())])
        ctx.check(tm.eq(V(X.Ptr(o, ())), ring.R, 256), 'bv:One=mont(1)')
    chk.explore('%s/method/Zero,One' % tag, with_machine(f_zero_one), mode='bv')

    # ---- repeated squaring
    pow2k = M + ('Pow2k' if tag == 'field' else 'pow2k')
    for part in partitions(['fe', 'a']):
        for k in range(0, 9):
            def f(ctx, m, mulM, part=part, k=k):
                ptrs, vals = objs_for(m, part, ['fe', 'a'])
                try:
                    m.call(pow2k, [ptrs['fe'], ptrs['a'], k])
                except X.GoPanic:
                    ctx.check(k == 0, 'panics-only-for-k=0')
                    return
                ctx.check(k != 0, 'k=0-must-panic')
                e = vals['a']
                for _ in range(k):
                    e = mulM(e, e)
                ctx.check(tm.eq(V(ptrs['fe']), e, 256), 'bv:value=a^(2^k)')
            chk.explore('%s/method/Pow2k[%s]@k=%d' % (tag, part_label(part), k), with_machine(f), mode='bv')

    # ---- conditional select / negate (ctrl is an arbitrary uint64)
    for part in partitions(['fe', 'a', 'b']):
        def f(ctx, m, mulM, part=part):
            ptrs, vals = objs_for(m, part, ['fe', 'a', 'b'])
            ctrl = tm.var('ctrl', 64)
            m.call(M + 'ConditionalSelect', [ptrs['fe'], ptrs['a'], ptrs['b'], ctrl])
            ctx.check(tm.eq(V(ptrs['fe']), tm.ite(tm.eq(ctrl, 0, 64), vals['a'], vals['b'], 256), 256), 'bv:value')
        chk.explore('%s/method/ConditionalSelect[%s]' % (tag, part_label(part)), with_machine(f), mode='bv')
    for part in partitions(['fe', 'a']):
        def f(ctx, m, mulM, part=part):
            ptrs, vals = objs_for(m, part, ['fe', 'a'])
            ctrl = tm.var('ctrl', 64)
            m.call(M + 'ConditionalNegate', [ptrs['fe'], ptrs['a'], ctrl])
            ctx.check(tm.eq(V(ptrs['fe']), tm.ite(tm.eq(ctrl, 0, 64), vals['a'], tm.trunc(spec_negmod(vals['a'], m_), 256), 256), 256), 'bv:value')
        chk.explore('%s/method/ConditionalNegate[%s]' % (tag, part_label(part)), with_machine(f), mode='bv')

    # ---- predicates
    for part in partitions(['fe', 'a']):
        def f(ctx, m, mulM, part=part):
            ptrs, vals = objs_for(m, part, ['fe', 'a'])
            r = m.call(M + 'Equal', [ptrs['fe'], ptrs['a']])
            ctx.check(tm.eq(r, tm.ite(tm.eq(vals['fe'], vals['a'], 256), 1, 0, 64), 64), 'bv:Equal')
        chk.explore('%s/method/Equal[%s]' % (tag, part_label(part)), with_machine(f), mode='bv')

    def f_pred(ctx, m, mulM):
        a = sym_limbs('a')
        A = tm.lift(cat_limbs(a), 256)
        p = X.Ptr(elem_obj(m, ring, a), ())
        r = m.call(M + 'IsZero', [p])
        ctx.check(tm.eq(r, tm.ite(tm.eq(A, 0, 256), 1, 0, 64), 64), 'bv:IsZero')
        plain = tm.uf('fromM_' + tag, [A], 256)
        if tag == 'field':
            r = m.call(M + 'IsOdd', [p])
            ctx.check(tm.eq(r, tm.zext(tm.extract(plain, 0, 0), 64), 64), 'bv:IsOdd=parity-of-plain-value')
        else:
            r = m.call(M + 'IsGreaterThanHalfN', [p])
            half = (m_ - 1) // 2
            ctx.check(tm.eq(r, tm.ite(tm.ult(half, plain, 256), 1, 0, 64), 64), 'bv:IsGreaterThanHalfN=plain>(n-1)/2')
            g = m.load(m.global_ptr(MOD + '.halfNSat'))
            ctx.check(tm.eq(cat_limbs(list(g)), half, 256), 'halfNSat=(n-1)/2')
        ctx.check(tm.eq(V(p), A, 256), 'bv:receiver-unchanged')
    chk.explore('%s/method/predicates' % tag, with_machine(f_pred), mode='bv')

    # ---- decoding / encoding
    def f_setbytes(ctx, m, mulM):
        bs = sym_bytes('s', 32)
        S = tm.lift(cat_bytes(bs), 256)
        src = m.new_obj(None, tree=list(bs), label='src')
        fe = X.Ptr(elem_obj(m, ring, sym_limbs('pre')), ())
        r, flag = m.call(M + 'SetBytes', [fe, X.Ptr(src, ())])
        ge = tm.ule(m_, S, 256)
        red = tm.ite(ge, tm.bv('sub', S, m_, 256), S, 256)
        ctx.check(r.same(fe), 'returns-receiver')
        ctx.check(tm.eq(flag, tm.ite(ge, 1, 0, 64), 64), 'bv:flag=(src>=m)')
        ctx.check(tm.eq(V(fe), tm.uf('toM_' + tag, [red], 256), 256), 'bv:value=toM(src mod m)')
        ctx.check(tm.eq(cat_bytes(list(src.tree)), S, 256), 'bv:src-unchanged')
    chk.explore('%s/method/SetBytes' % tag, with_machine(f_setbytes), mode='bv')

    def f_setcanon(ctx, m, mulM):
        bs = sym_bytes('s', 32)
        S = tm.lift(cat_bytes(bs), 256)
        src = m.new_obj(None, tree=list(bs), label='src')
        pre = sym_limbs('pre')
        fe = X.Ptr(elem_obj(m, ring, pre), ())
        r, err = m.call(M + 'SetCanonicalBytes', [fe, X.Ptr(src, ())])
        if err is None:
            ctx.check(tm.ult(S, m_, 256), 'bv:accepted-implies-canonical')
            ctx.check(r.same(fe), 'returns-receiver')
            ctx.check(tm.eq(V(fe), tm.uf('toM_' + tag, [S], 256), 256), 'bv:value=toM(src)')
            return 'accept'
        ctx.check(tm.ule(m_, S, 256), 'bv:rejected-implies-noncanonical')
        ctx.check(r.is_nil(), 'no-object-on-error')
        ctx.check(tm.eq(V(fe), tm.lift(cat_limbs(pre), 256), 256), 'bv:receiver-unchanged-on-error')
        return 'reject'
    paths = chk.explore('%s/method/SetCanonicalBytes' % tag, with_machine(f_setcanon), mode='bv')
    chk.add('%s/method/SetCanonicalBytes/witness-both-outcomes' % tag, [], {p.value for p in paths} == {'accept', 'reject'})

    def f_bytes(ctx, m, mulM):
        a = sym_limbs('a')
        A = tm.lift(cat_limbs(a), 256)
        p = X.Ptr(elem_obj(m, ring, a), ())
        sl = m.call(M + 'Bytes', [p])
        el = m.slice_elems(sl)
        ctx.check(len(el) == 32, 'length-32')
        ctx.check(tm.eq(cat_bytes(el), tm.uf('fromM_' + tag, [A], 256), 256), 'bv:bytes=BE(fromM(limbs))')
        ctx.check(sl.obj is not p.obj and not sl.obj.is_global, 'fresh-buffer')
        ctx.check(tm.eq(V(p), A, 256), 'bv:receiver-unchanged')
    chk.explore('%s/method/Bytes' % tag, with_machine(f_bytes), mode='bv')

    def f_fromu64(ctx, m, mulM):
        l0 = tm.var('l0', 64)
        fn = (MOD + '/internal/field.NewElementFromUint64') if tag == 'field' else (MOD + '.NewScalarFromUint64')
        r = m.call(fn, [l0])
        ctx.check(tm.eq(V(r), tm.uf('toM_' + tag, [tm.zext(l0, 256)], 256), 256), 'bv:value=toM(l0)')
    chk.explore('%s/method/NewFromUint64' % tag, with_machine(f_fromu64), mode='bv')

    if tag == 'field':
        def f_canon(ctx, m, mulM):
            bs = sym_bytes('s', 32)
            src = m.new_obj(None, tree=list(bs), label='src')
            r = m.call(MOD + '/internal/field.BytesAreCanonical', [X.Ptr(src, ())])
            ctx.check(tm.eq(r, tm.ult(tm.lift(cat_bytes(bs), 256), m_, 256), 0), 'bv:BytesAreCanonical')
        chk.explore('field/method/BytesAreCanonical', with_machine(f_canon), mode='bv')

        def f_must(ctx, m, mulM):
            bs = sym_bytes('s', 32)
            S = tm.lift(cat_bytes(bs), 256)
            src = m.new_obj(None, tree=list(bs), label='src')
            fe = X.Ptr(elem_obj(m, ring, sym_limbs('pre')), ())
            try:
                m.call(M + 'MustSetCanonicalBytes', [fe, X.Ptr(src, ())])
            except X.GoPanic:
                ctx.check(tm.ule(m_, S, 256), 'bv:panics-only-when-noncanonical')
                return
            ctx.check(tm.ult(S, m_, 256), 'bv:noncanonical-must-panic')
            ctx.check(tm.eq(V(fe), tm.uf('toM_field', [S], 256), 256), 'bv:value')
        chk.explore('field/method/MustSetCanonicalBytes', with_machine(f_must), mode='bv')
    else:
        # Sum / Product over vectors with aliased entries and the receiver among them
        maxlen = 6 if chk.thorough else 4
        for fn in ('Sum', 'Product'):
            for n in range(0, maxlen + 1):
                patterns = [tuple(range(n))]
                if n >= 1:
                    patterns.append(tuple([0] * n))                      # all entries the same object
                    patterns.append(tuple(['s'] + list(range(1, n))))    # receiver is entry 0
                if n >= 2:
                    patterns.append(tuple(list(range(n - 1)) + ['s']))   # receiver is the last entry
                    patterns.append(tuple([0, 0] + list(range(2, n))))   # first two alias
                for pat in patterns:
                    def f(ctx, m, mulM, fn=fn, n=n, pat=pat):
                        recv = elem_obj(m, ring, sym_limbs('recv'))
                        objs = {'s': recv}
                        vec = []
                        for k in pat:
                            if k not in objs:
                                objs[k] = elem_obj(m, ring, sym_limbs('v%s' % k))
                            vec.append(objs[k])
                        vals = [tm.lift(cat_limbs(list(o.tree[1])), 256) for o in vec]
                        arr = m.new_obj(None, tree=[X.Ptr(o, ()) for o in vec], label='vec')
                        sl = X.Slice(arr, (), 0, n, n) if n else X.NILSLICE
                        r = m.call(M + fn, [X.Ptr(recv, ()), sl])
                        if fn == 'Sum':
                            e = tm.const(0, 256)
                            for v in vals:
                                e = tm.trunc(spec_addmod(tm.lift(e, 256), v, m_), 256)
                        else:
                            e = tm.const(ring.R, 256)
                            for v in vals:
                                e = mulM(tm.lift(e, 256), v)
                        ctx.check(r.same(X.Ptr(recv, ())), 'returns-receiver')
                        ctx.check(tm.eq(V(X.Ptr(recv, ())), e, 256), 'bv:value')
                        for o, v in zip(vec, vals):
                            if o is not recv:
                                ctx.check(tm.eq(tm.lift(cat_limbs(list(o.tree[1])), 256), v, 256), 'bv:entry-unchanged')
                    chk.explore('scalar/method/%s@len%d[%s]' % (fn, n, ','.join(str(k) for k in pat)), with_machine(f), mode='bv')
        chk.bounds.append('Scalar.Sum/Product: vector lengths 0..%d with distinct entries, all-equal entries, receiver first/last, first two aliased' % maxlen)


# ==============================================================================================
# Addition chains: executed in the exponent (monomial) domain.  An element is x^e and its limb
# array holds the integer e; Mul adds exponents, Square doubles them.  The real SSA of the chain -
# including the real Pow2k loops - is executed; the claim has no free variable (it holds for every x
# by the exponent laws), so the final comparison is ground.
def install_exponent_kernels(m, ring):
    F = ring.fiat

    def ld(p):
        return int_of(m.load(p))

    def int_of(l):
        return sum(int(x) << (64 * i) for i, x in enumerate(l))

    def st(p, e):
        if e >= 1 << 256:
            raise X.GoPanic("exponent domain overflow (chain computes an exponent >= 2^256)")
        m.store(p, limbs_of(e))
    m.contracts[F + 'Mul'] = lambda m, a: st(a[0], ld(a[1]) + ld(a[2]))
    m.contracts[F + 'Square'] = lambda m, a: st(a[0], 2 * ld(a[1]))


def chains(chk, prog, ring, gl):
    tag = ring.which
    M = ring.meth
    targets = [('Invert', ring.m - 2)]
    if tag == 'field':
        targets.append(('pow3mod4', (ring.m - 3) // 4))
    for name, want in targets:
        for alias in (False, True):
            res = {}

            def h(ctx, name=name, alias=alias, res=res):
                m = new_machine(prog, ctx, gl)
                install_exponent_kernels(m, ring)
                m.unwind = 400
                x = elem_obj(m, ring, limbs_of(1))
                z = x if alias else elem_obj(m, ring, limbs_of(0xdeadbeef))
                r = m.call(M + name, [X.Ptr(z, ()), X.Ptr(x, ())])
                res['e'] = int_of_limbs(list(z.tree[1]))
                res['ret_ok'] = r.same(X.Ptr(z, ()))
                res['x_after'] = int_of_limbs(list(x.tree[1]))
                chk.note_machine(m)
            lbl = '%s/chain/%s[%s]' % (tag, name, 'z=x' if alias else 'z|x')
            chk.explore(lbl, h)
            chk.add(lbl + '/exponent', [], res.get('e') == want, meta={'exponent_found': hex(res.get('e', -1)), 'exponent_wanted': hex(want)})
            chk.add(lbl + '/returns-receiver', [], res.get('ret_ok') is True)
            if not alias:
                chk.add(lbl + '/operand-unchanged', [], res.get('x_after') == 1)
    chk.notes.append('%s: Invert computes x^(m-2) (hence 1/x, and 0 for x=0, by Fermat - trusted)%s' % (
        tag, '; pow3mod4 computes x^((p-3)/4)' if tag == 'field' else ''))


# ==============================================================================================
def field_sqrt(chk, prog, ring, gl):
    """SqrtRatio / Sqrt data flow against RFC 9380 F.2.1.2 only"""
    field_extras(chk, prog, ring, gl, parts=('sqrt',))


def field_wide(chk, prog, ring, gl):
    """SetWideBytes as exact arithmetic only"""
    field_extras(chk, prog, ring, gl, parts=('wide',))


def field_extras(chk, prog, ring, gl, parts=('sqrt', 'wide')):
    """SqrtRatio / Sqrt data flow against RFC 9380 F.2.1.2, and SetWideBytes as exact arithmetic."""
    from . import models
    Fm = ring.meth
    p = ring.m

    def mk(ctx, mul):
        m = new_machine(prog, ctx, gl, value_model=True)
        models.install_value_model(m, mul=mul, which=('field',))
        return m

    mulU = models.mulmod_uf('mul_field')

    def mul(a, b):
        return mulU(a, b, p)

    def powc1(x):
        return tm.uf('pow_p_minus_3_over_4', [tm.lift(x, 256)], 256)

    def V(ptr):
        return tm.lift(cat_limbs(elem_limbs(ptr)), 256)

    def install_pow(m):
        def c(m, a):
            v = tm.lift(cat_limbs(list(m.load(a[1])[1])), 256)
            o = a[0].obj
            m.store(X.Ptr(o, a[0].path + (1,)), models.split_limbs(powc1(v)))
            return a[0]
        m.contracts[Fm + 'pow3mod4'] = c
    chk.summaries['(*field.Element).pow3mod4'] = 'x -> x^((p-3)/4): discharged by field/chain/pow3mod4/exponent'

    def rfc_sqrt_ratio(u, v, c2):
        tv1 = mul(v, v)
        tv2 = mul(u, v)
        tv1 = mul(tv1, tv2)
        y1 = powc1(tv1)
        y1 = mul(y1, tv2)
        y2 = mul(y1, c2)
        tv3 = mul(y1, y1)
        tv3 = mul(tv3, v)
        isqr = tm.eq(tv3, u, 256)
        return isqr, tm.ite(isqr, y1, y2, 256)

    c2_holder = {}
    for part in (partitions(['z', 'u', 'v']) if 'sqrt' in parts else ()):
        def h(ctx, part=part):
            m = mk(ctx, 'uf')
            install_pow(m)
            objs = {}
            for n in ('z', 'u', 'v'):
                if part[n] not in objs:
                    l = sym_limbs(n)
                    ctx.assume(tm.ult(tm.lift(cat_limbs(l), 256), p, 256))
                    objs[part[n]] = elem_obj(m, ring, l)
            ptr = {n: X.Ptr(objs[part[n]], ()) for n in part}
            u0, v0 = V(ptr['u']), V(ptr['v'])
            c2 = V(m.load(m.global_ptr(MOD + '/internal/field.feC2')))
            c2_holder['c2'] = tm.cval(c2)
            r, flag = m.call(Fm + 'SqrtRatio', [ptr['z'], ptr['u'], ptr['v']])
            isqr, y = rfc_sqrt_ratio(u0, v0, c2)
            ctx.check(tm.eq(flag, tm.ite(isqr, 1, 0, 64), 64), 'bv:flag=RFC9380-isQR')
            ctx.check(tm.eq(V(ptr['z']), y, 256), 'bv:value=RFC9380-F.2.1.2')
            ctx.check(r.same(ptr['z']), 'returns-receiver')
            for n in ('u', 'v'):
                if part[n] != part['z']:
                    ctx.check(tm.eq(V(ptr[n]), u0 if n == 'u' else v0, 256), 'bv:operand-unchanged')
            chk.note_machine(m)
        chk.explore('field/sqrt/SqrtRatio[%s]' % part_label(part), h, mode='bv')
    if 'sqrt' in parts:
        chk.add('field/sqrt/c2^2=-Z=11', [], (c2_holder.get('c2', 0) ** 2) % p == 11, meta={'c2': hex(c2_holder.get('c2', 0))})

    for part in (partitions(['fe', 'a']) if 'sqrt' in parts else ()):
        def h(ctx, part=part):
            m = mk(ctx, 'uf')
            install_pow(m)
            objs = {}
            for n in ('fe', 'a'):
                if part[n] not in objs:
                    l = sym_limbs(n)
                    ctx.assume(tm.ult(tm.lift(cat_limbs(l), 256), p, 256))
                    objs[part[n]] = elem_obj(m, ring, l)
            ptr = {n: X.Ptr(objs[part[n]], ()) for n in part}
            a0 = V(ptr['a'])
            c2 = V(m.load(m.global_ptr(MOD + '/internal/field.feC2')))
            r, flag = m.call(Fm + 'Sqrt', [ptr['fe'], ptr['a']])
            isqr, y = rfc_sqrt_ratio(a0, 1, c2)
            ctx.check(tm.eq(flag, tm.ite(isqr, 1, 0, 64), 64), 'bv:flag')
            ctx.check(tm.eq(V(ptr['fe']), tm.ite(isqr, y, 0, 256), 256), 'bv:root-or-zero')
            chk.note_machine(m)
        chk.explore('field/sqrt/Sqrt[%s]' % part_label(part), h, mode='bv')
    if 'sqrt' in parts:
        chk.notes.append('SqrtRatio/Sqrt: the code is shown to compute RFC 9380 F.2.1.2 (optimized sqrt_ratio for q = 3 mod 4) step for step, '
                         'with c1 = (p-3)/4 and c2^2 = -Z; that this procedure returns (true, sqrt(u/v)) exactly when u/v is square is the RFC\'s claim (Euler criterion) and is trusted')

    # ---- SetWideBytes: value = OS2IP(src) mod p for every length 32..64, panic outside
    for L in (range(31, 66) if 'wide' in parts else ()):
        def h(ctx, L=L):
            m = mk(ctx, 'exact')
            bs = sym_bytes('s', L)
            fe = X.Ptr(elem_obj(m, ring, sym_limbs('pre')), ())
            try:
                r = m.call(Fm + 'SetWideBytes', [fe, m.new_byte_slice(bs, 'src')])
            except X.GoPanic:
                ctx.check(L < 32 or L > 64, 'panics-only-outside-32..64')
                chk.note_machine(m)
                return 'panic'
            ctx.check(32 <= L <= 64, 'must-panic-outside-32..64')
            # OS2IP(src) = a + b*2^192 + c*2^384 (positional split of the integer); reduction mod p is a ring
            # homomorphism, so 2^384 may be replaced by the spec-side constant 2^384 mod p (python pow)
            full = [0] * (64 - L) + bs
            a, b, c = cat_bytes(full[40:]), cat_bytes(full[16:40]), cat_bytes(full[:16])
            K384 = pow(2, 384, p)

            def z(v, w):
                return tm.zext(tm.lift(v, w), 520) if tm.is_sym(v) else v
            T = tm.bv('add', tm.bv('add', z(a, 192), tm.bv('mul', z(b, 192), 2 ** 192, 520), 520), tm.bv('mul', z(c, 128), K384, 520), 520)
            spec = tm.trunc(tm.bv('urem', T, p, 520), 256)
            ctx.check(tm.eq(V(fe), spec, 256), 'value=OS2IP(src) mod p')
            ctx.check(r.same(fe), 'returns-receiver')
            chk.note_machine(m)
            return 'ok'
        chk.explore('field/wide/SetWideBytes@len%d' % L, h, mode='int', timeout=300)
    if 'wide' in parts:
        chk.bounds.append('SetWideBytes: every length 31..65 (31 and 65 must panic), all byte contents')
