"""C10 ECDH is symmetric and exact; key objects only ever hold valid keys."""
import os
from .common import Check, load_prog, load_globals, new_machine, tm, X, MOD, N_ORDER, sym_bytes, cat_bytes, cat_limbs
from .schnorr_common import snapshot, unchanged
from . import models, stubs, toy as T
from .c07 import TOYS_QUICK, TOYS_THOROUGH

SECEC = MOD + '/secec.'
SK = '(*' + MOD + '/secec.PrivateKey).'
PKM = '(*' + MOD + '/secec.PublicKey).'
W = T.W


def main():
    chk = Check('C10')
    prog = load_prog()
    gl = load_globals(prog)
    only = os.environ.get('VERIF_ONLY', '')
    chk.summaries.update(T.CONTRACT_SUMMARY)
    toys = TOYS_THOROUGH if chk.thorough else TOYS_QUICK
    tasks = []

    def mk(ctx, toy):
        m = new_machine(prog, ctx, gl, value_model=True)
        T.install(m, toy)
        return m

    def t_ecdh(toy):
        def task(sub):
            def h(ctx):
                m = mk(ctx, toy)
                a, b = tm.var('a', W), tm.var('b', W)
                for v in (a, b):
                    ctx.assume(tm.band(tm.bnot(tm.eq(v, 0, W)), tm.ult(v, toy.n, W)))
                ka, kb = T.new_private_key(m, a), T.new_private_key(m, b)
                pa, pb = T.fld(m, ka, T.PRIV_T, 'publicKey'), T.fld(m, kb, T.PRIV_T, 'publicKey')
                snap = snapshot(m, [ka, kb])
                s1, e1 = m.call(SK + 'ECDH', [ka, pb])
                s2, e2 = m.call(SK + 'ECDH', [kb, pa])
                sub.note_machine(m)
                ctx.check(unchanged(m, snap), 'bv:key-objects-unchanged-by-ECDH')
                ctx.check(e1 is None and e2 is None, 'never-fails-for-valid-keys')
                if e1 is None and e2 is None:
                    ab = toy.muln(a, b)
                    want = T.be32(toy.X(ab))
                    x1, x2 = m.slice_elems(s1), m.slice_elems(s2)
                    ctx.check(len(x1) == 32 and len(x2) == 32, 'length-32')
                    ctx.check(tm.eq(cat_bytes(x1), cat_bytes(want), 256), 'bv:ECDH(a,B)=x((ab)G)')
                    ctx.check(tm.eq(cat_bytes(x2), cat_bytes(want), 256), 'bv:ECDH(b,A)=x((ab)G)')
                    ctx.check(tm.bnot(tm.eq(ab, 0, W)), 'bv:never-derived-from-the-point-at-infinity')
            sub.explore('toy(%d,%d)/ECDH' % (toy.p, toy.n), h, mode='bv')
        return task
    if not only or 'ecdh' in only:
        for (p, n) in toys:
            tasks.append(('ecdh', t_ecdh(T.get_toy(p, n))))
        chk.bounds.append('ECDH: toy curves %s, all a,b in [1,n\')' % toys)

    # ---- NewPrivateKey over byte strings (toy semantics incl. derived public key), lengths 0..40
    def t_newpriv(toy, L):
        def task(sub):
            def h(ctx):
                m = mk(ctx, toy)
                v16 = tm.var('v16', W)
                bs = T.be32(v16)
                key = (bs + sym_bytes('tail', max(0, L - 32)))[:L] if L >= 32 else bs[32 - L:]
                key_s = m.new_byte_slice(key, 'key')
                k, err = m.call(SECEC + 'NewPrivateKey', [key_s])
                sub.note_machine(m)
                spec = tm.band(tm.bnot(tm.eq(v16, 0, W)), tm.ult(v16, toy.n, W)) if L == 32 else False
                if err is None:
                    ctx.check(spec, 'bv:accepted-implies-32-bytes-and-1<=d<n')
                    from .c20 import reachable
                    ctx.check(key_s.obj.id not in reachable(k), 'key-does-not-alias-the-callers-buffer (cached values stay equal to the encodings of the key)')
                    ctx.check(tm.eq(m.toy_sval(T.fld(m, k, T.PRIV_T, 'scalar')), v16, W), 'bv:scalar=d')
                    pub = T.fld(m, k, T.PRIV_T, 'publicKey')
                    ctx.check(tm.eq(m.toy_pget(T.fld(m, pub, T.PUB_T, 'point')), v16, W), 'bv:public-point=d*G')
                    want = [4] + T.be32(toy.X(v16)) + T.be32(toy.Y(v16))
                    ctx.check(tm.eq(cat_bytes(m.slice_elems(T.fld(m, pub, T.PUB_T, 'pointBytes'))), cat_bytes(want), 520), 'bv:cached-encoding')
                    # accessors hand out copies
                    b1 = m.call(SK + 'Bytes', [k])
                    ctx.check(tm.eq(cat_bytes(m.slice_elems(b1)), cat_bytes(bs), 256), 'bv:Bytes()=canonical-encoding')
                    return 'ok'
                ctx.check(tm.bnot(spec), 'bv:rejected-implies-invalid')
                ctx.check(k.is_nil(), 'no-key-on-error')
                return 'err'
            paths = sub.explore('toy(%d,%d)/NewPrivateKey@len%d' % (toy.p, toy.n, L), h, mode='bv')
            sub.add('toy(%d,%d)/NewPrivateKey@len%d/witness' % (toy.p, toy.n, L), [], ('ok' in {p.value for p in paths}) == (L == 32))
        return task
    if not only or 'priv' in only:
        toy = T.get_toy(*toys[0])
        for L in range(0, 41):
            tasks.append(('newpriv', t_newpriv(toy, L)))

    # ---- NewPrivateKey at full width (range check only; d*G opaque)
    def t_newpriv_full(sub):
        def h(ctx):
            m = new_machine(prog, ctx, gl, value_model=True)
            models.install_value_model(m, mul='uf')
            PT = '(*' + MOD + '.Point).'
            marker = {}

            def c_sbm(m, a):
                marker['scalar'] = tm.lift(cat_limbs(list(m.load(a[1])[1])), 256)
                return a[0]
            m.contracts[PT + 'ScalarBaseMult'] = c_sbm
            m.contracts[PT + 'IsIdentity'] = lambda m, a: 0
            m.contracts[PT + 'UncompressedBytes'] = lambda m, a: m.new_byte_slice(sym_bytes('enc', 65), 'enc')
            B = sym_bytes('B', 32)
            k, err = m.call(SECEC + 'NewPrivateKey', [m.new_byte_slice(B, 'key')])
            sub.note_machine(m)
            v = tm.lift(cat_bytes(B), 256)
            spec = tm.band(tm.bnot(tm.eq(v, 0, 256)), tm.ult(v, N_ORDER, 256))
            if err is None:
                ctx.check(spec, 'bv:accepted-implies-1<=d<n')
                ctx.check(tm.eq(tm.lift(cat_limbs(list(m.load(T.fld(m, k, T.PRIV_T, 'scalar'))[1])), 256), v, 256), 'bv:scalar=d')
                ctx.check(tm.eq(marker.get('scalar', 0), v, 256), 'bv:public-key-derived-from-d')
                return 'ok'
            ctx.check(tm.bnot(spec), 'bv:rejected-implies-0-or>=n')
            return 'err'
        paths = sub.explore('exact/NewPrivateKey@len32', h, mode='bv')
        sub.add('exact/NewPrivateKey/witness', [], {p.value for p in paths} == {'ok', 'err'})
    if not only or 'priv' in only:
        tasks.append(('newpriv-full', t_newpriv_full))
        chk.bounds.append('NewPrivateKey: every length 0..40 (toy), all 32-byte strings at full width (0, n, >= n rejected)')

    # ---- NewPublicKey over byte strings: toy semantics
    def t_newpub(toy, L):
        def task(sub):
            def h(ctx):
                m = mk(ctx, toy)
                if L == 33:
                    x16 = tm.var('x16', W)
                    B = [tm.var('pre', 8)] + T.be32(x16)
                elif L == 65:
                    x16, y16 = tm.var('x16', W), tm.var('y16', W)
                    B = [tm.var('pre', 8)] + T.be32(x16) + T.be32(y16)
                else:
                    B = sym_bytes('B', L)
                key_s = m.new_byte_slice(B, 'key')
                k, err = m.call(SECEC + 'NewPublicKey', [key_s])
                sub.note_machine(m)
                if err is None:
                    from .c20 import reachable
                    ctx.check(key_s.obj.id not in reachable(k), 'key-does-not-alias-the-callers-buffer (cached encoding stays equal to the encoding of the point)')
                if L == 33:
                    found, idx = toy.lift(x16, tm.eq(tm.bv('and', B[0], 1, 8), 1, 8))
                    spec = tm.band_all([tm.bor(tm.eq(B[0], 2, 8), tm.eq(B[0], 3, 8)), tm.ult(x16, toy.p, W), found])
                elif L == 65:
                    on, idx = toy.on_curve(x16, y16)
                    spec = tm.band_all([tm.eq(B[0], 4, 8), on])
                else:
                    spec, idx = False, 0     # the identity encoding 0x00 is rejected
                if err is None:
                    ctx.check(spec, 'bv:accepted-implies-valid-non-identity-point')
                    kt = [None, T.fld(m, k, T.PUB_T, 'point'), T.fld(m, k, T.PUB_T, 'pointBytes')]
                    q = m.toy_pget(kt[1])
                    ctx.check(tm.eq(q, idx, W), 'bv:point-decoded')
                    ctx.check(tm.bnot(tm.eq(q, 0, W)), 'bv:never-identity')
                    want = [4] + T.be32(toy.X(q)) + T.be32(toy.Y(q))
                    ctx.check(tm.eq(cat_bytes(m.slice_elems(kt[2])), cat_bytes(want), 520), 'bv:cached-encoding=uncompressed(point)')
                    cb = m.slice_elems(m.call(PKM + 'CompressedBytes', [k]))
                    pc = m.slice_elems(m.call('(*' + MOD + '.Point).CompressedBytes', [kt[1]]))
                    ctx.check(len(cb) == 33 and tm.eq(cat_bytes(cb), cat_bytes(pc), 264), 'bv:CompressedBytes()=point.CompressedBytes()')
                    return 'ok'
                ctx.check(tm.bnot(spec), 'bv:rejected-implies-invalid')
                ctx.check(k.is_nil(), 'no-key-on-error')
                return 'err'
            paths = sub.explore('toy(%d,%d)/NewPublicKey@len%d' % (toy.p, toy.n, L), h, mode='bv')
            sub.add('toy(%d,%d)/NewPublicKey@len%d/witness' % (toy.p, toy.n, L), [], ('ok' in {p.value for p in paths}) == (L in (33, 65)))
        return task
    if not only or 'pub' in only:
        toy = T.get_toy(*toys[0])
        for L in (0, 1, 2, 32, 33, 34, 64, 65, 66):
            tasks.append(('newpub', t_newpub(toy, L)))
        chk.bounds.append('NewPublicKey: lengths {0,1,2,32,33,34,64,65,66}; all prefixes; coordinates arbitrary 16-bit values (off-curve, twist, >= p\' included); toy curve %s' % (toys[0],))
        chk.notes.append('full-width strictness of the SEC 1 decoder behind NewPublicKey is C06')

    # ---- NewPublicKey at full width through the real SEC 1 decoder (field product/sqrt are the C01 contracts)
    from . import c06

    def t_newpub_full(L):
        def task(sub):
            def h(ctx):
                m = new_machine(prog, ctx, gl, value_model=True)
                c06.install_field_contracts(m)
                B = sym_bytes('B', L)
                key_s = m.new_byte_slice(B, 'key')
                k, err = m.call(SECEC + 'NewPublicKey', [key_s])
                sub.note_machine(m)
                if err is None:
                    from .c20 import reachable
                    ctx.check(key_s.obj.id not in reachable(k), 'key-does-not-alias-the-callers-buffer')
                acc, kind, x, y = c06.sec1_spec(B)
                if kind == 'identity':
                    acc = False                      # the point at infinity is not a public key
                if kind == 'compressed':
                    yy = c06.curve_rhs(x)
                    ctx.assume(tm.implies(c06.is_square(yy), tm.bnot(tm.eq(c06.sqrt_of(yy), 0, 256))))
                    ctx.assume(tm.ult(c06.sqrt_of(yy), c06.P, 256))
                if err is None:
                    ctx.check(acc, 'bv:accepted-implies-valid-non-identity-SEC1-point')
                    kt = [None, T.fld(m, k, T.PUB_T, 'point'), T.fld(m, k, T.PUB_T, 'pointBytes')]
                    st = c06.pt_state(kt[1].obj)
                    ctx.check(tm.band_all([tm.eq(st[0], x, 256), tm.eq(st[1], y, 256), tm.eq(st[2], 1, 256), tm.eq(st[3], True, 0)]), 'bv:point=(x,y,1)')
                    if kind == 'uncompressed':
                        ctx.check(tm.eq(cat_bytes(m.slice_elems(kt[2])), cat_bytes(B), 520), 'bv:cached-encoding=input')
                    return 'ok'
                ctx.check(tm.bnot(acc), 'bv:rejected-implies-invalid')
                ctx.check(k.is_nil(), 'no-key-on-error')
                return 'err'
            paths = sub.explore('exact/NewPublicKey@len%d' % L, h, mode='bv')
            sub.add('exact/NewPublicKey@len%d/witness' % L, [], ('ok' in {p.value for p in paths}) == (L in (33, 65)))
        return task
    if not only or 'pub' in only:
        chk.summaries.update(c06.SUMMARY)
        for L in (list(range(0, 67)) if chk.thorough else [0, 1, 2, 32, 33, 34, 64, 65, 66]):
            tasks.append(('newpub-full', t_newpub_full(L)))
        chk.bounds.append('NewPublicKey (real decoder, full width): lengths %s, all byte contents' % ('0..66' if chk.thorough else '{0,1,2,32,33,34,64,65,66}'))

    # ---- "always": the key-object invariant is an inductive invariant of the API.  One step from an arbitrary valid key pair: every
    # accessor is called, everything it returns is overwritten by the caller with arbitrary values, every operation that takes a key
    # as an operand is run, and the invariant (cached encodings = encodings of the point/scalar, point = d*G, point != O) is re-checked.
    BTC = MOD + '/secec/bitcoin.'

    def t_invariant(toy):
        def task(sub):
            def h(ctx):
                stubs.NARROW['on'] = True
                m = mk(ctx, toy)
                stubs.install_hash_stubs(m)
                stubs.install_crypto_hash(m)
                d, q = tm.var('d', W), tm.var('q', W)
                for v in (d, q):
                    ctx.assume(tm.band(tm.bnot(tm.eq(v, 0, W)), tm.ult(v, toy.n, W)))
                sk, pk = T.new_private_key(m, d), T.new_public_key(m, q)
                nmut = [0]

                def clobber_bytes(sl):
                    if sl.obj is None:
                        return
                    for i in range(len(m.slice_elems(sl))):
                        nmut[0] += 1
                        m.store(X.Ptr(sl.obj, sl.path + (sl.off + i,)), tm.var('mut%d' % nmut[0], 8))

                def clobber_point(pt):
                    nmut[0] += 1
                    m.store(pt, X.Abs('pt', tm.var('mutp%d' % nmut[0], W)))

                def clobber_scalar(sc):
                    nmut[0] += 1
                    m.store(X.Ptr(sc.obj, sc.path + (1,)), T.widen_limbs(tm.var('muts%d' % nmut[0], W)))

                def inv(tag):
                    pub = T.fld(m, sk, T.PRIV_T, 'publicKey')
                    ctx.check(tm.eq(m.toy_sval(T.fld(m, sk, T.PRIV_T, 'scalar')), d, W), 'bv:%s/private-scalar-still-d' % tag)
                    for nm, key, val in (('derived-public-key', pub, d), ('public-key', pk, q)):
                        pt = m.toy_pget(T.fld(m, key, T.PUB_T, 'point'))
                        ctx.check(tm.eq(pt, val, W), 'bv:%s/%s-point-unchanged' % (tag, nm))
                        want = [4] + T.be32(toy.X(val)) + T.be32(toy.Y(val))
                        ctx.check(tm.eq(cat_bytes(m.slice_elems(T.fld(m, key, T.PUB_T, 'pointBytes'))), cat_bytes(want), 520),
                                  'bv:%s/%s-cached-encoding=encoding-of-the-point' % (tag, nm))
                        enc = m.slice_elems(m.call(PKM + 'Bytes', [key]))
                        ctx.check(len(enc) == 65 and tm.eq(cat_bytes(enc), cat_bytes(want), 520), 'bv:%s/%s-Bytes()=encoding-of-the-point' % (tag, nm))
                    kb = m.slice_elems(m.call(SK + 'Bytes', [sk]))
                    ctx.check(len(kb) == 32 and tm.eq(cat_bytes(kb), cat_bytes(T.be32(d)), 256), 'bv:%s/PrivateKey.Bytes()=encoding-of-d' % tag)
                inv('initially')
                # accessors, each result overwritten by the caller
                clobber_bytes(m.call(SK + 'Bytes', [sk]))
                clobber_scalar(m.call(SK + 'Scalar', [sk]))
                for key in (pk, m.call(SK + 'PublicKey', [sk])):
                    clobber_bytes(m.call(PKM + 'Bytes', [key]))
                    clobber_bytes(m.call(PKM + 'CompressedBytes', [key]))
                    clobber_point(m.call(PKM + 'Point', [key]))
                inv('after-accessors-and-caller-mutation')
                # operations that take keys as operands
                sh, err = m.call(SK + 'ECDH', [sk, pk])
                if err is None:
                    clobber_bytes(sh)
                m.call(PKM + 'Equal', [pk, X.Iface('*' + T.PUB_T, m.call(SK + 'PublicKey', [sk]))])
                m.call(SK + 'Equal', [sk, X.Iface('*' + T.PRIV_T, sk)])
                ssk = m.call(BTC + 'NewSchnorrPrivateKeyFromECDSA', [sk])
                spk = m.call(BTC + 'NewSchnorrPublicKeyFromECDSA', [pk])
                inv('after-ECDH-Equal-and-Schnorr-key-derivation')
                sub.note_machine(m)
                return 'ok'
            paths = sub.explore('toy(%d,%d)/key-invariant-inductive-step' % (toy.p, toy.n), h, mode='bv')
            sub.add('toy(%d,%d)/key-invariant-inductive-step/witness' % (toy.p, toy.n), [], any(p.outcome == 'ok' for p in paths))
        return task
    if not only or 'inv' in only:
        tasks.append(('invariant', t_invariant(T.get_toy(*toys[0]))))
        chk.bounds.append('key-object invariant, one inductive step on toy curve %s from every valid key pair (d, Q): accessors Bytes/Scalar/PublicKey/'
                          'CompressedBytes/Point with every returned byte, scalar and point overwritten by arbitrary values; ECDH, Equal, '
                          'NewSchnorrPrivateKeyFromECDSA, NewSchnorrPublicKeyFromECDSA with the keys as operands' % (toys[0],))
    # ---- every other routine that hands out a PublicKey object: the object it returns satisfies the key invariant (point != O, on the
    # curve by construction of the toy group, cached encoding = encoding of the point).  RecoverPublicKey builds its key from a computed
    # point (the only producer whose point can be the identity for well-formed arguments: s*R = e*G).
    def t_producer_recover(toy, L):
        def task(sub):
            def h(ctx):
                from .c07 import digest_bytes
                m = mk(ctx, toy)
                stubs.install_crypto_hash(m)
                r, s, v = tm.var('r', W), tm.var('s', W), tm.var('v', 8)
                ctx.assume(tm.ult(r, toy.n, W))
                ctx.assume(tm.ult(s, toy.n, W))
                e16, hb = digest_bytes(L)
                key, err = m.call(SECEC + 'RecoverPublicKey', [m.new_byte_slice(hb, 'digest'), T.new_scalar(m, r), T.new_scalar(m, s), v])
                sub.note_machine(m)
                if err is not None:
                    ctx.check(key.is_nil(), 'no-key-on-error')
                    return 'err'
                kq = m.toy_pget(T.fld(m, key, T.PUB_T, 'point'))
                ctx.check(tm.bnot(tm.eq(kq, 0, W)), 'bv:returned-key-never-holds-the-point-at-infinity')
                want = [4] + T.be32(toy.X(kq)) + T.be32(toy.Y(kq))
                pb = m.slice_elems(T.fld(m, key, T.PUB_T, 'pointBytes'))
                ctx.check(len(pb) == 65 and tm.eq(cat_bytes(pb), cat_bytes(want), 520), 'bv:cached-encoding=encoding-of-the-point')
                enc = m.slice_elems(m.call(PKM + 'Bytes', [key]))
                ctx.check(len(enc) == 65 and tm.eq(cat_bytes(enc), cat_bytes(want), 520), 'bv:Bytes()=encoding-of-the-point')
                return 'ok'
            lbl = 'toy(%d,%d)/producer/RecoverPublicKey@len%d' % (toy.p, toy.n, L)
            paths = sub.explore(lbl, h, mode='bv', timeout=300)
            sub.add(lbl + '/witness', [], {p.value for p in paths} == {'ok', 'err'})
        return task
    if not only or 'producers' in only:
        for L in (32, 64):
            tasks.append(('producers', t_producer_recover(T.get_toy(*toys[0]), L)))
        chk.bounds.append('key objects returned by RecoverPublicKey on toy curve %s: all r,s in [0,n\'), all 256 recovery ids, all digests (leading 32 bytes < 2^16, lengths 32 and 64); '
                          'SubjectPublicKeyInfo parsing as a producer is decided at full width by C12 (spki/*) over NewPublicKey, whose claims are the newpub/* obligations here' % (toys[0],))

    # contracts this check's toy layer uses for routines named in the property's own file list: re-decided here (see common.include_dependency)
    from .common import include_dependency
    if not only or 'dep' in only:
        include_dependency(chk, tasks, 'C04', 'consts mulg split bound table lookup ladder', "ECDH multiplies the peer's point by the private scalar with Point.ScalarMult (toy layer: contract s*P)")
        include_dependency(chk, tasks, 'C05', 'table lookup basemult key', 'a private scalar d is mapped to its public key with ScalarBaseMult (toy layer: contract d*G)')
        include_dependency(chk, tasks, 'C06', 'decode coords', 'NewPublicKey decodes through Point.SetBytes / NewPointFromBytes (full-width decode claims)')
    chk.run_tasks(tasks)
    chk.discharge()
    chk.finish()


if __name__ == '__main__':
    from .common import run_main
    run_main(main)
