"""Abstract interpretations of field.Element for the curve layers (C03, C04, C05, C15, C16).

field.Element becomes an opaque leaf holding a value of an *algebra*; every Element method the curve code
calls is replaced by its contract (ring operation on that value).  The contracts are exactly what C01
discharges.  Two algebras:

  PolyZ    values are integer polynomials (z3 Int terms, no reduction).  Z -> F_p is a ring homomorphism, so a
           polynomial identity over Z is an identity in every commutative ring: used for straight-line formulas.
  ToyField values are narrow bit-vectors mod a small prime q with table inverse / square root: everything is
           interpreted, so whole group-law statements are decidable.
"""
import z3
from .common import tm, X, MOD, make_error

FE = '(*' + MOD + '/internal/field.Element).'
FPKG = MOD + '/internal/field.'
ELEM_T = MOD + '/internal/field.Element'
W = 16


class PolyZ:
    name = 'polyZ'

    def const(self, c):
        return z3.IntVal(c)

    def add(self, a, b):
        return a + b

    def sub(self, a, b):
        return a - b

    def neg(self, a):
        return -a

    def mul(self, a, b):
        return a * b


class ToyField:
    def __init__(self, q):
        self.q = q
        self.name = 'F_%d' % q
        self.inv_tbl = [0] + [pow(i, -1, q) for i in range(1, q)]
        roots = {}
        for y in range(q):
            roots.setdefault(y * y % q, []).append(y)
        self.sqrt_tbl = [min(roots[a]) if a in roots else None for a in range(q)]
        # toy Montgomery factor: the limb image of an element v is (v * rho mod q, 0, 0, 0) with rho = 2^256 mod q, as in the real
        # representation, so code that handles limbs without respecting the Montgomery form is wrong here too
        self.rho = next(r for r in (pow(2, 256, q), pow(2, 64, q), 3) if r % q not in (0, 1))
        self.rinv = pow(self.rho, -1, q)

    def const(self, c):
        return c % self.q

    def red(self, x):
        return tm.bv('urem', x, self.q, W)

    def add(self, a, b):
        return self.red(tm.bv('add', a, b, W))

    def sub(self, a, b):
        return self.red(tm.bv('sub', tm.bv('add', a, self.q, W), b, W))

    def neg(self, a):
        return self.red(tm.bv('sub', self.q, a, W))

    def mul(self, a, b):
        return self.red(tm.bv('mul', a, b, W))

    def tbl(self, idx, vals, default=0):
        if not isinstance(idx, tm.T):
            v = vals[idx] if idx < len(vals) else None
            return default if v is None else v
        r = default
        for i in range(len(vals) - 1, -1, -1):
            if vals[i] is not None:
                r = tm.ite(tm.eq(idx, i, W), vals[i], r, W)
        return r

    def inv(self, a):
        return self.tbl(a, self.inv_tbl)

    def is_square(self, a):
        if not isinstance(a, tm.T):
            return self.sqrt_tbl[a] is not None
        return tm.bor_all([tm.eq(a, i, W) for i in range(self.q) if self.sqrt_tbl[i] is not None])

    def sqrt(self, a):
        return self.tbl(a, self.sqrt_tbl)

    def eq(self, a, b):
        return tm.eq(a, b, W)


CURRENT = {'alg': None}    # the toy field of the machine installed last in this process (harnesses install one machine family at a time)


def leaf_value(node):
    """value of a toy-field element leaf of an object tree: abstract (Abs) or left as explicit limbs by code below the method level
    (explicit limbs hold the toy Montgomery form value * rho, see install)"""
    if isinstance(node, X.Abs):
        return node.v
    limbs = list(node[1])
    l0 = limbs[0]
    if any(isinstance(x, tm.T) or x != 0 for x in limbs[1:]) or (isinstance(l0, tm.T) and l0.ub >= (1 << W)) or \
            (not isinstance(l0, tm.T) and l0 >= (1 << W)):
        raise X.AbstractionBreach("toy field element with limbs outside 16 bits: %r" % (limbs,))
    raw = tm.extract(l0, W - 1, 0) if isinstance(l0, tm.T) else l0
    alg = CURRENT['alg']
    return alg.mul(raw, alg.rinv) if alg is not None else raw


def install(m, alg, consts=None):
    """make field.Element abstract over algebra `alg`.  consts: overrides for package-level Elements
    {global name: python int} (interpreted in the algebra)."""
    toy = isinstance(alg, ToyField)

    def mk(v):
        return X.Abs('fe', v)
    m.abstract_types[ELEM_T] = lambda: mk(alg.const(0))

    def get(ptr):
        v = m.load(ptr)
        if isinstance(v, X.Abs):
            return v.v
        limbs = list(v[1])
        if toy and any(isinstance(x, tm.T) for x in limbs):
            # an element that code below the method level (a new method written directly over the fiat kernels, a raw copy of
            # limbs) left as explicit limbs: its value is limb 0; limbs must stay canonical (< q), which is the toy image of the
            # kernels' documented range invariant
            l0 = limbs[0]
            hi_zero = all((not isinstance(x, tm.T)) and x == 0 for x in limbs[1:])
            if not (hi_zero and isinstance(l0, tm.T) and l0.ub < (1 << W)):
                m.ctx.check(tm.band_all([tm.eq(x, 0, 64) for x in limbs[1:]] + [tm.ult(tm.lift(l0, 64), alg.q, 64)]),
                            'bv:field-element-limbs-stay-canonical')
            val = tm.extract(l0, W - 1, 0) if isinstance(l0, tm.T) else l0 & ((1 << W) - 1)
            if isinstance(val, tm.T) and val.ub >= alg.q:
                m.ctx.check(tm.ult(val, alg.q, W), 'bv:field-element-limbs-stay-canonical')
            return alg.mul(val, alg.rinv)      # explicit limbs hold the toy Montgomery form
        val = sum(int(x) << (64 * i) for i, x in enumerate(limbs))
        if toy:
            # concrete explicit limbs (package constants are abstract leaves here, see global_struct_hook below): Montgomery form as well
            if val >= alg.q:
                m.ctx.check(False, 'bv:field-element-limbs-stay-canonical')
            return (val % alg.q) * alg.rinv % alg.q
        # polynomial domain: concrete element from the globals dump, [[], [4 limbs]] holding the plain value (R = 1 model)
        return alg.const(val)

    def put(ptr, v):
        m.store(ptr, mk(v))
        return ptr
    m.fe_get, m.fe_put = get, put
    C = m.contracts
    C[FE + 'Zero'] = lambda m, a: put(a[0], alg.const(0))
    C[FE + 'One'] = lambda m, a: put(a[0], alg.const(1))
    C[FE + 'Set'] = lambda m, a: put(a[0], get(a[1]))
    C[FE + 'Add'] = lambda m, a: put(a[0], alg.add(get(a[1]), get(a[2])))
    C[FE + 'Subtract'] = lambda m, a: put(a[0], alg.sub(get(a[1]), get(a[2])))
    C[FE + 'Negate'] = lambda m, a: put(a[0], alg.neg(get(a[1])))
    C[FE + 'Multiply'] = lambda m, a: put(a[0], alg.mul(get(a[1]), get(a[2])))
    C[FE + 'Square'] = lambda m, a: put(a[0], (lambda v: alg.mul(v, v))(get(a[1])))
    C[FPKG + 'NewElement'] = lambda m, a: X.Ptr(m.new_obj(None, tree=mk(alg.const(0)), label='Element'), ())
    C[FPKG + 'NewElementFrom'] = lambda m, a: X.Ptr(m.new_obj(None, tree=mk(get(a[0])), label='Element'), ())

    def c_fromu64(m, a):
        if isinstance(a[0], tm.T):
            raise X.Unsupported("symbolic NewElementFromUint64")
        return X.Ptr(m.new_obj(None, tree=mk(alg.const(a[0])), label='Element'), ())
    C[FPKG + 'NewElementFromUint64'] = c_fromu64

    def c_pow2k(m, a):
        k = a[2]
        if isinstance(k, tm.T):
            raise X.Unsupported("symbolic Pow2k count")
        if k == 0:
            raise X.GoPanic("internal/field: k out of bounds")
        v = get(a[1])
        for _ in range(k):
            v = alg.mul(v, v)
        return put(a[0], v)
    C[FE + 'Pow2k'] = c_pow2k

    if toy:
        q = alg.q

        def merge(c, a, b):
            return mk(tm.ite(c, a.v, b.v, W))
        m.abs_merge = merge
        # code that reaches below the method level (e.g. a new Element method written over the fiat kernels) runs on the limb image
        # [v*rho mod q,0,0,0] of the abstract value (toy Montgomery form), with the fiat kernels interpreted mod q
        m.abs_materialize = dict(m.abs_materialize or {})
        rho, rinv = alg.rho, alg.rinv

        def limb(v):
            return tm.zext(v, 64) if isinstance(v, tm.T) else v
        m.abs_materialize['fe'] = lambda node: [[], [limb(alg.mul(node.v, rho)), 0, 0, 0]]
        # package-level field elements of the current tree (dumped with the plain value) become abstract leaves, so that every explicit
        # limb vector in this machine is a Montgomery-form image
        hooks = dict(getattr(m, 'global_struct_hook', None) or {})
        hooks[ELEM_T] = lambda tree: mk(alg.const(sum(int(x) << (64 * i) for i, x in enumerate(tree[1]))))
        m.global_struct_hook = hooks
        CURRENT['alg'] = alg
        FIAT = MOD + '/internal/fiat/secp256k1montgomery.'

        def kld(ptr):
            limbs = list(m.load(ptr))
            l0 = limbs[0]
            return tm.extract(l0, W - 1, 0) if isinstance(l0, tm.T) else l0 & ((1 << W) - 1)

        def kst(ptr, v):
            m.store(ptr, [tm.zext(v, 64) if isinstance(v, tm.T) else v, 0, 0, 0])
        C[FIAT + 'Add'] = lambda m, a: kst(a[0], alg.add(kld(a[1]), kld(a[2])))
        C[FIAT + 'Sub'] = lambda m, a: kst(a[0], alg.sub(kld(a[1]), kld(a[2])))
        C[FIAT + 'Opp'] = lambda m, a: kst(a[0], alg.neg(kld(a[1])))
        C[FIAT + 'Mul'] = lambda m, a: kst(a[0], alg.mul(alg.mul(kld(a[1]), kld(a[2])), rinv))
        C[FIAT + 'Square'] = lambda m, a: kst(a[0], (lambda v: alg.mul(alg.mul(v, v), rinv))(kld(a[1])))
        C[FIAT + 'ToMontgomery'] = lambda m, a: kst(a[0], alg.mul(kld(a[1]), rho))
        C[FIAT + 'FromMontgomery'] = lambda m, a: kst(a[0], alg.mul(kld(a[1]), rinv))
        C[FIAT + 'SetOne'] = lambda m, a: kst(a[0], rho)
        C[FE + 'ConditionalSelect'] = lambda m, a: put(a[0], tm.ite(tm.eq(a[3], 0, 64), get(a[1]), get(a[2]), W))
        C[FE + 'ConditionalNegate'] = lambda m, a: put(a[0], (lambda v: tm.ite(tm.eq(a[2], 0, 64), v, alg.neg(v), W))(get(a[1])))
        C[FE + 'Equal'] = lambda m, a: tm.ite(tm.eq(get(a[0]), get(a[1]), W), 1, 0, 64)
        C[FE + 'IsZero'] = lambda m, a: tm.ite(tm.eq(get(a[0]), 0, W), 1, 0, 64)

        def c_isodd(m, a):
            v = get(a[0])
            return tm.zext(tm.extract(v, 0, 0), 64) if isinstance(v, tm.T) else v & 1
        C[FE + 'IsOdd'] = c_isodd
        C[FE + 'Invert'] = lambda m, a: put(a[0], alg.inv(get(a[1])))

        def c_sqrt(m, a):
            v = get(a[1])
            isq = alg.is_square(v)
            put(a[0], tm.ite(isq, alg.sqrt(v), 0, W))
            return (a[0], tm.ite(isq, 1, 0, 64))
        C[FE + 'Sqrt'] = c_sqrt

        def be32(v):
            if isinstance(v, tm.T):
                return [0] * 30 + [tm.extract(v, 15, 8), tm.extract(v, 7, 0)]
            return [0] * 30 + [(v >> 8) & 0xff, v & 0xff]
        C[FE + 'Bytes'] = lambda m, a: m.new_byte_slice(be32(get(a[0])), 'fe-bytes')

        def decode(arrptr):
            bs = list(m.load(arrptr))
            fits = tm.band_all([tm.eq(b, 0, 8) for b in bs[:-2]])
            v = tm.concat_w(bs[-2], 8, bs[-1], 8)
            return tm.band(fits, tm.ult(v, q, W)), v

        def c_setcanon(m, a):
            ok, v = decode(a[1])
            if m.ctx.branch(ok):
                put(a[0], v)
                return (a[0], None)
            return (X.NILPTR, make_error(m, 'value out of range'))
        C[FE + 'SetCanonicalBytes'] = c_setcanon

        def c_newcanon(m, a):
            ok, v = decode(a[0])
            if m.ctx.branch(ok):
                return (X.Ptr(m.new_obj(None, tree=mk(v), label='Element'), ()), None)
            return (X.NILPTR, make_error(m, 'value out of range'))
        C[FPKG + 'NewElementFromCanonicalBytes'] = c_newcanon
    else:
        # polynomial domain: data-independent code only; a select is kept as an explicit z3 ite
        def sel(ctrl, a_, b_):
            if isinstance(ctrl, tm.T):
                raise X.Unsupported("polyZ: symbolic select control")
            return a_ if ctrl == 0 else b_
        C[FE + 'ConditionalSelect'] = lambda m, a: put(a[0], sel(a[3], get(a[1]), get(a[2])))

    for name, val in (consts or {}).items():
        m.global_init[name] = (lambda mm, val=val: X.Ptr(mm.new_obj(None, tree=mk(alg.const(val)), label='const:' + name), ()))
    m.alg = alg
    return m


SUMMARY = {
    'field.Element methods (abstract)': 'ring operations on the abstract value (add, sub, neg, mul, square, select, equal, zero test, parity, '
                                        'inverse, sqrt, canonical encode/decode): discharged at full width by C01',
}
