"""C08 ECDSA signing always yields a valid, low-s, correctly recoverable signature."""
import os
from .common import Check, load_prog, load_globals, new_machine, tm, X, MOD, make_error
from . import stubs, toy as T
from .c07 import spec_verify, spec_recover, digest_bytes, TOYS_QUICK, TOYS_THOROUGH

SECEC = MOD + '/secec.'
SK = '(*' + MOD + '/secec.PrivateKey).'
W = T.W
OPTS_T = '*' + MOD + '/secec.ECDSAOptions'
MAX_TRIES = 3


def install_nonce_stubs(m, toy, log):
    """mitigateDebianAndSony / sampleRandomScalar replaced by their C09 contracts: a generator object, and per draw
    either an arbitrary nonce in [1,n') or an error"""
    def c_mitigate(m, a):
        log['mitigate'] = log.get('mitigate', 0) + 1
        if m.ctx.branch(tm.boolvar('entropy_fails')):
            return (None, make_error(m, 'entropy source failure'))
        return (X.Iface('stub.nonce-generator', 'GEN'), None)
    m.contracts[SECEC + 'mitigateDebianAndSony'] = c_mitigate

    def c_sample(m, a):
        i = len(log['k'])
        if i >= MAX_TRIES:
            raise X.UnwindExceeded("more than %d nonce draws" % MAX_TRIES)
        if m.ctx.branch(tm.boolvar('sampler_fails_%d' % i)):
            log['k'].append(None)
            return (X.NILPTR, make_error(m, 'failed rejection sampling'))
        k = tm.var('k_%d' % i, W)
        m.ctx.assume(tm.band(tm.bnot(tm.eq(k, 0, W)), tm.ult(k, toy.n, W)))
        log['k'].append(k)
        return (T.new_scalar(m, k), None)
    m.contracts[SECEC + 'sampleRandomScalar'] = c_sample


def spec_sign(toy, e16, d, k):
    """SEC 1 4.1.3 for nonce k: returns (retry, r, s, v) as W-bit/8-bit terms"""
    n = toy.n
    e = tm.bv('urem', e16, n, W)
    x = toy.X(k)
    r = tm.bv('urem', x, n, W)
    s0 = toy.muln(toy.invn(k), toy.addn(e, toy.muln(r, d)))
    retry = tm.bor(tm.eq(r, 0, W), tm.eq(s0, 0, W))
    half = (n - 1) // 2
    neg = tm.ult(half, s0, W)
    s = tm.ite(neg, toy.negn(s0), s0, W)
    y = toy.Y(k)
    v = tm.bv('or', tm.ite(tm.ule(n, x, W), 2, 0, 8), tm.zext(tm.extract(tm.lift(y, W), 0, 0), 8), 8)
    v = tm.bv('xor', v, tm.ite(neg, 1, 0, 8), 8)
    return retry, r, s, v


def check_signature(ctx, toy, e16, d, r, s, v, tag=''):
    half = (toy.n - 1) // 2
    ctx.check(tm.band_all([tm.bnot(tm.eq(r, 0, W)), tm.ult(r, toy.n, W)]), 'bv:%sr-in-[1,n)' % tag)
    ctx.check(tm.band_all([tm.bnot(tm.eq(s, 0, W)), tm.ule(s, half, W)]), 'bv:%ss-in-[1,(n-1)/2]' % tag)
    ctx.check(tm.ult(v, 4, 8), 'bv:%sv-in-[0,3]' % tag)
    ctx.check(spec_verify(toy, e16, r, s, d), 'bv:%sverifies-under-signer-key' % tag)
    ok, Q = spec_recover(toy, e16, r, s, v)
    ctx.check(tm.band(ok, tm.eq(Q, d, W)), 'bv:%semitted-id-recovers-signer' % tag)
    others = []
    for o in (1, 2, 3):
        ok2, Q2 = spec_recover(toy, e16, r, s, tm.bv('xor', v, o, 8))
        others.append(tm.bnot(tm.band(ok2, tm.eq(Q2, d, W))))
    ctx.check(tm.band_all(others), 'bv:%sno-other-id-recovers-signer' % tag)


def main():
    chk = Check('C08')
    prog = load_prog()
    gl = load_globals(prog)
    only = os.environ.get('VERIF_ONLY', '')
    chk.summaries.update(T.CONTRACT_SUMMARY)
    chk.summaries['secec.mitigateDebianAndSony / sampleRandomScalar'] = 'generator or error; per draw an arbitrary k in [1,n\') or an error: discharged by C09'
    chk.stubs.append('math/big.Int (SetBytes/Sign/Bytes): unsigned big-endian magnitude; cryptobyte.Builder is executed from its real SSA')
    toys = TOYS_THOROUGH if chk.thorough else TOYS_QUICK
    tasks = []

    def mk(ctx, toy, log):
        m = new_machine(prog, ctx, gl, value_model=True)
        stubs.install_crypto_hash(m)
        T.install(m, toy)
        install_nonce_stubs(m, toy, log)
        return m

    def t_signraw(toy, L):
        def task(sub):
            def h(ctx):
                log = {'k': []}
                m = mk(ctx, toy, log)
                d = tm.var('d', W)
                ctx.assume(tm.band(tm.bnot(tm.eq(d, 0, W)), tm.ult(d, toy.n, W)))
                e16, hb = digest_bytes(L)
                priv = T.new_private_key(m, d)
                r, s, v, err = m.call(SK + 'SignRaw', [priv, X.Iface('stub.rand', 'RAND'), m.new_byte_slice(hb, 'digest')])
                sub.note_machine(m)
                if err is not None:
                    # errors: short digest, entropy failure, sampler failure -- never a signature
                    ctx.check(r.is_nil() and s.is_nil(), 'no-signature-on-error')
                    ctx.check(L < 32 or log.get('mitigate', 0) == 0 or any(k is None for k in log['k']) or len(log['k']) == 0, 'error-has-a-cause')
                    return 'err'
                ctx.check(L >= 32, 'short-digest-must-not-be-signed')
                ks = log['k']
                kk = ks[-1]
                rv, sv = m.toy_sval(r), m.toy_sval(s)
                retry, r_s, s_s, v_s = spec_sign(toy, e16, d, kk)
                ctx.check(tm.bnot(retry), 'bv:accepted-nonce-gives-nonzero-r,s')
                ctx.check(tm.band_all([tm.eq(rv, r_s, W), tm.eq(sv, s_s, W), tm.eq(v, v_s, 8)]), 'bv:(r,s,v)=SEC1-4.1.3-for-the-accepted-nonce')
                for kj in ks[:-1]:
                    ctx.check(spec_sign(toy, e16, d, kj)[0], 'bv:retried-only-when-r=0-or-s=0')
                return ('ok', len(ks))
            paths = sub.explore('toy(%d,%d)/SignRaw@len%d' % (toy.p, toy.n, L), h, mode='bv', unwind_ok=True)
            vals = {p.value for p in paths if p.outcome == 'ok'}
            if L >= 32:
                sub.add('toy(%d,%d)/SignRaw@len%d/witness-first-try-and-retry-and-error' % (toy.p, toy.n, L), [],
                        ('ok', 1) in vals and ('ok', 2) in vals and 'err' in vals, meta={'outcomes': sorted(map(str, vals))})
        return task
    if not only or 'raw' in only:
        for (p, n) in toys:
            for L in (0, 31, 32, 48, 64):
                tasks.append(('signraw', t_signraw(T.get_toy(p, n), L)))
        chk.bounds.append('SignRaw/sign: toy curves %s; all d in [1,n\'), all digests (leading 32 bytes < 2^16), all nonce sequences of up to %d draws '
                          '(further retries are outside the bound: unwinding assumption), digest lengths {0,31,32,48,64}' % (toys, MAX_TRIES))
        chk.outside.append('signing runs that need more than %d nonce draws' % MAX_TRIES)

    # ---- specification-level lemma, once per toy curve, split over the nonce: the SEC 1 4.1.3 output for ANY (d, e, k)
    # that is not retried is in range, low-s, verifies under d*G, and exactly its recovery id recovers d*G.
    # Together with "(r,s,v) of the code = SEC 1 4.1.3" (per path, above) this is the property for the code.
    def t_lemma(toy, k):
        def task(sub):
            def h(ctx):
                d, e16 = tm.var('d', W), tm.var('e16', W)
                ctx.assume(tm.band(tm.bnot(tm.eq(d, 0, W)), tm.ult(d, toy.n, W)))
                retry, r_s, s_s, v_s = spec_sign(toy, e16, d, k)
                ctx.assume(tm.bnot(retry))
                check_signature(ctx, toy, e16, d, r_s, s_s, v_s, tag='spec:')
            sub.explore('toy(%d,%d)/spec-lemma@k=%d' % (toy.p, toy.n, k), h, mode='bv', timeout=300)
        return task
    if not only or 'lemma' in only:
        for (p, n) in (toys if chk.thorough else toys[:1]):
            toy = T.get_toy(p, n)
            for k in range(1, n):
                tasks.append(('lemma', t_lemma(toy, k)))
        chk.bounds.append('specification lemma (SEC 1 4.1.3 output verifies / is recovered only by its id): toy curves %s, all d, e, every k' % (toys if chk.thorough else toys[:1]))

    def t_sign_opts(toy, optkind, hashid, enc, selfv, L):
        def task(sub):
            def h(ctx):
                log = {'k': []}
                m = mk(ctx, toy, log)
                d = tm.var('d', W)
                ctx.assume(tm.band(tm.bnot(tm.eq(d, 0, W)), tm.ult(d, toy.n, W)))
                e16, hb = digest_bytes(L)
                priv = T.new_private_key(m, d)
                if optkind == 'nil':
                    opts = None
                elif optkind == 'hash':
                    opts = X.Iface('crypto.Hash', hashid)
                else:
                    o = m.new_obj(None, tree=[hashid, enc & (2 ** 64 - 1), selfv, False], label='ECDSAOptions')
                    opts = X.Iface(OPTS_T, X.Ptr(o, ()))

                stubs.install_bigint(m)      # BuildASN1Signature runs the real cryptobyte.Builder
                sig, err = m.call(SK + 'Sign', [priv, X.Iface('stub.rand', 'RAND'), m.new_byte_slice(hb, 'digest'), opts])
                sub.note_machine(m)
                # admissibility
                if optkind == 'nil':
                    size_ok, eff_enc = L >= 32, 0
                elif optkind == 'hash':
                    size_ok, eff_enc = (L == stubs.HASH_SIZES[hashid]) and L >= 32, 0
                else:
                    size_ok, eff_enc = (L == stubs.HASH_SIZES[hashid or 5]) and L >= 32, enc
                admissible = size_ok and eff_enc in (0, 1, 2)
                if err is not None:
                    ctx.check(sig is None or sig.is_nil(), 'no-signature-on-error')
                    if admissible:
                        ctx.check(log.get('mitigate', 0) > 0 and (len(log['k']) == 0 or any(k is None for k in log['k'])), 'admissible-request-fails-only-on-entropy/sampler-error')
                    return 'err'
                ctx.check(admissible, 'inadmissible-digest-length-or-encoding-must-be-an-error')
                if not admissible:
                    return 'bad'
                kk = log['k'][-1]
                retry, r_s, s_s, v_s = spec_sign(toy, e16, d, kk)
                el = m.slice_elems(sig)
                from .common import cat_bytes
                if eff_enc == 0:
                    # ASN.1: the returned bytes parse back (real strict-DER parser) to the (r,s) of SEC 1 4.1.3
                    r2, s2, perr = m.call(SECEC + 'ParseASN1Signature', [sig])
                    ctx.check(perr is None, 'asn1-signature-parses-back')
                    if perr is None:
                        ctx.check(tm.band(tm.eq(m.toy_sval(r2), r_s, W), tm.eq(m.toy_sval(s2), s_s, W)), 'bv:asn1-bytes-parse-back-to-(r,s)-of-SEC1-4.1.3')
                else:
                    want = {1: T.be32(r_s) + T.be32(s_s), 2: T.be32(r_s) + T.be32(s_s) + [v_s]}[eff_enc]
                    ctx.check(len(el) == len(want), 'encoding-length')
                    if len(el) == len(want):
                        ctx.check(tm.eq(cat_bytes(el), cat_bytes(want), 8 * len(want)), 'bv:bytes-encode-(r,s[,v])-of-SEC1-4.1.3')
                return 'ok'
            sub.explore('toy(%d,%d)/Sign[%s,hash=%s,enc=%s,selfverify=%s]@len%d' % (toy.p, toy.n, optkind, hashid, enc, selfv, L), h, mode='bv', unwind_ok=True)
        return task
    if not only or 'opts' in only:
        toy = T.get_toy(*toys[0])
        for L in (31, 32, 48, 64):
            tasks.append(('sign-nil', t_sign_opts(toy, 'nil', 0, 0, False, L)))
            for hid in (5, 7, 3):
                tasks.append(('sign-hash', t_sign_opts(toy, 'hash', hid, 0, False, L)))
        for hid in (0, 5, 7):
            for enc in (0, 1, 2, 3, -1, -1000, 1 << 40):
                for selfv in (False, True):
                    for L in (32, 64):
                        if selfv and not chk.thorough and not ((hid == 5 and enc in (0, 1, 2, -1) and L == 32) or (hid == 7 and enc in (1, 2) and L == 64)):
                            continue
                        tasks.append(('sign-opts', t_sign_opts(toy, 'opts', hid, enc, selfv, L)))
        chk.bounds.append('Sign(opts): opts in {nil, crypto.Hash{SHA-1,SHA-256,SHA-512}, *ECDSAOptions with hash {0,SHA-256,SHA-512} x encoding {0,1,2,3,-1,-1000,2^40} x SelfVerify}, digest lengths {31,32,48,64}')


    # ---------------------------------------------------------------- full width: the low-s normalisation step of sign()
    # (the toy curves have one-limb scalars; the two statements that make s low are therefore also decided on 256-bit values)
    def t_lows_full(sub):
        from . import models
        from .common import sym_limbs, cat_limbs, N_ORDER
        SC = '(*' + MOD + '.Scalar).'

        def h(ctx):
            m = new_machine(prog, ctx, gl, value_model=True)
            models.install_value_model(m, mul='uf', which=('scalar',))
            sl = sym_limbs('s')
            S = tm.lift(cat_limbs(sl), 256)
            ctx.assume(tm.ult(S, N_ORDER, 256))
            ctx.assume(tm.bnot(tm.eq(S, 0, 256)))
            sp = X.Ptr(m.new_obj(None, tree=[[], list(sl)], label='s'), ())
            neg = m.call(SC + 'IsGreaterThanHalfN', [sp])
            half = (N_ORDER - 1) // 2
            ctx.check(tm.eq(neg, tm.ite(tm.ult(half, S, 256), 1, 0, 64), 64), 'bv:negateS=(s>(n-1)/2)')
            m.call(SC + 'ConditionalNegate', [sp, sp, neg])
            S2 = tm.lift(cat_limbs(list(m.load(sp)[1])), 256)
            ctx.check(tm.ule(S2, half, 256), "bv:s'<=(n-1)/2")
            ctx.check(tm.bnot(tm.eq(S2, 0, 256)), "bv:s'!=0")
            ctx.check(tm.eq(S2, tm.ite(tm.ult(half, S, 256), tm.bv('sub', N_ORDER, S, 256), S, 256), 256), "bv:s'=min(s,n-s)")
            sub.note_machine(m)
            return 'ok'
        paths = sub.explore('exact/low-s-normalisation', h, mode='bv')
        sub.add('exact/low-s-normalisation/witness', [], any(p.outcome == 'ok' for p in paths))
    if not only or 'lows' in only:
        tasks.append(('lows', t_lows_full))
        chk.bounds.append('low-s step of sign() (IsGreaterThanHalfN + ConditionalNegate) at full width: every s in [1,n)')

    # contracts this check's toy layer uses for routines named in the property's own file list: re-decided here (see common.include_dependency)
    from .common import include_dependency
    if not only or 'dep' in only:
        include_dependency(chk, tasks, 'C05', 'table lookup basemult key', 'signing computes k*G with ScalarBaseMult (toy layer: contract)')
    chk.run_tasks(tasks)
    chk.discharge()
    chk.finish()


if __name__ == '__main__':
    from .common import run_main
    run_main(main)
