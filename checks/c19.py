"""C19 Assembly and pure-Go builds are observationally identical (the SSE2 table lookups)."""
import os
import re
import subprocess
from .common import Check, load_prog, load_globals, new_machine, tm, X, MOD, REPO, GOENV
from engine import asmx86

ROOT = MOD + '.'


def flatten_layout(prog, tid, base=0, path=()):
    """list of (byte offset, size, path, is_u64) for every scalar leaf of type tid (gc/amd64 layout)"""
    t = prog.under(tid)
    k = t['k']
    out = []
    if k == 'struct':
        for i, f in enumerate(t['fields']):
            out += flatten_layout(prog, f['t'], base + f.get('off', 0), path + (i,))
    elif k == 'array':
        esz = prog.types[t['elem']].get('size', 0)
        for i in range(t['len']):
            out += flatten_layout(prog, t['elem'], base + i * esz, path + (i,))
    else:
        out.append((base, prog.types[tid].get('size', 8), path, bool(t.get('int') and t.get('bits') == 64)))
    return out


def main():
    chk = Check('C19')
    prog = load_prog()   # purego build: the portable reference lookups have SSA bodies
    gl = load_globals(prog)
    asm_path = os.path.join(REPO, 'point_mul_table_amd64.s')
    funcs = asmx86.parse(open(asm_path).read())
    chk.funcs |= {'asm:' + n for n in funcs}

    cases = [('lookupProjectivePoint', MOD + '.projectivePointMultTable', MOD + '.Point'),
             ('lookupAffinePoint', MOD + '.affinePointMultTable', MOD + '.affinePoint')]
    for fn, tbl_t, out_t in cases:
        tbl_tid, out_tid = prog.tid_by_str[tbl_t], prog.tid_by_str[out_t]
        tl = flatten_layout(prog, tbl_tid)
        ol = flatten_layout(prog, out_tid)
        tbytes, obytes = prog.types[tbl_tid]['size'], prog.types[out_tid]['size']

        def words_of(layout, nbytes, name):
            ws = [None] * ((nbytes + 7) // 8)
            coord = set()
            for off, size, path, isu in layout:
                if isu:
                    ws[off // 8] = tm.var('%s_w%d' % (name, off // 8), 64)
                    coord.add(off // 8)
            for i in range(len(ws)):
                if ws[i] is None:
                    ws[i] = tm.var('%s_other%d' % (name, i), 64)   # bool / padding bytes: arbitrary content
            return ws, coord

        def h(ctx, fn=fn, tl=tl, ol=ol, tbytes=tbytes, obytes=obytes, tbl_tid=tbl_tid, out_tid=out_tid):
            idx = tm.var('idx', 64)
            ctx.assume(tm.ule(idx, 15, 64))                 # documented contract: idx in [0,15]
            tws, tcoord = words_of(tl, tbytes, 'tbl')
            ows, ocoord = words_of(ol, obytes, 'out')
            tbase, obase = tm.var('tbl_addr', 64), tm.var('out_addr', 64)
            ctx.assume(tm.eq(tm.bv('and', tbase, 7, 64), 0, 64))   # 8-byte alignment is all Go guarantees for these types
            ctx.assume(tm.eq(tm.bv('and', obase, 7, 64), 0, 64))
            if fn == 'lookupAffinePoint':
                # for idx = 0 the portable code leaves the destination untouched and the SSE2 code stores zero: the
                # documented use (its only call site passes a fresh `var ap affinePoint`) is a zero destination
                ctx.assume(tm.bor(tm.bnot(tm.eq(idx, 0, 64)), tm.band_all([tm.eq(w, 0, 64) for i, w in enumerate(ows) if i in ocoord])))
            treg = asmx86.Region('tbl', tws, tbytes, tbase)
            oreg = asmx86.Region('out', ows, obytes, obase)
            try:
                M, faults = asmx86.run(funcs[fn], {'tbl': ('ptr', treg, 0), 'out': ('ptr', oreg, 0), 'idx': idx}, [treg, oreg])
            except asmx86.AsmFault as e:
                ctx.check(False, 'asm-no-fault: ' + str(e))
                return
            for desc, cond in faults:
                ctx.check(tm.bnot(cond), 'bv:asm-no-fault: ' + desc)
            # portable reference on the same symbolic memory
            m = new_machine(prog, ctx, gl)

            def build(tid, layout, ws):
                tree = m.zero(tid)
                for off, size, path, isu in layout:
                    node = tree
                    for e in path[:-1]:
                        node = node[e]
                    if isu:
                        node[path[-1]] = ws[off // 8]
                    elif prog.under(tid) and isinstance(node[path[-1]], bool):
                        node[path[-1]] = tm.boolvar('flag_%d' % off)
                return tree
            tobj = m.new_obj(tbl_tid, tree=build(tbl_tid, tl, tws), label='tbl')
            oobj = m.new_obj(out_tid, tree=build(out_tid, ol, ows), label='out')
            m.call(ROOT + fn, [X.Ptr(tobj, ()), X.Ptr(oobj, ()), idx])
            chk.note_machine(m)
            for off, size, path, isu in ol:
                if not isu:
                    continue
                node = oobj.tree
                for e in path:
                    node = node[e]
                ctx.check(tm.eq(oreg.words[off // 8], node, 64), 'bv:word@%d-equals-portable-reference' % off)
            ctx.check(oreg.written <= ocoord, 'asm-writes-only-coordinate-words', )
            ctx.check(not treg.written, 'asm-does-not-write-the-table')
            ctx.check(all(tm.evaluate(a, {}) == b if False else (a is b) for a, b in zip(treg.words, tws)), 'table-unchanged')
            return M.steps
        paths = chk.explore('asm/%s' % fn, h, mode='bv')
        chk.add('asm/%s/witness-single-straight-line-path' % fn, [], len(paths) == 1 and paths[0].outcome == 'ok')
    chk.bounds.append('lookupProjectivePoint / lookupAffinePoint: all 16 indices, all table contents (every limb of all 15 entries symbolic), arbitrary prior content of the destination, '
                      'arbitrary 8-byte-aligned addresses')
    chk.assumptions.append('lookupAffinePoint with idx = 0: destination zero-initialised (as at its only call site); every other case: arbitrary prior content')
    chk.outside.append('idx > 15 (outside the documented contract: the SSE2 code compares 32-bit lanes, the portable code 64-bit values)')
    chk.outside.append('instruction encodings / CPU behaviour below the Plan 9 assembly text')

    # build-constraint scan: the only build-dependent files must be the lookup pair
    p = subprocess.run('git -C %s ls-files "*.go" "*.s"' % REPO, shell=True, stdout=subprocess.PIPE, text=True, env=GOENV)
    tagged = {}
    for f in p.stdout.split():
        if f.endswith('_test.go'):
            continue
        try:
            head = open(os.path.join(REPO, f)).read(3000)
        except OSError:
            continue
        mm = re.search(r'^//go:build (.*)$', head, re.M)
        arch = re.search(r'_(amd64|arm64|386|arm|linux|darwin|windows)\.(go|s)$', f)
        if mm or arch:
            tagged[f] = mm.group(1).strip() if mm else 'filename:' + arch.group(1)
    expected = {'point_mul_table_amd64.go': 'amd64 && !purego', 'point_mul_table_amd64.s': 'amd64 && !purego',
                'point_mul_table_ref.go': '!amd64 || purego', 'internal/asm/gen_table_amd64.go': None, 'internal/asm/types.go': None}
    extra = {f: c for f, c in tagged.items() if f not in expected and c != 'ignore'}   # `ignore` files are generators, never built
    wrong = {f: c for f, c in tagged.items() if f in expected and expected[f] is not None and c != expected[f]}
    chk.add('buildtags/only-the-lookup-pair-is-build-dependent', [], not extra and not wrong, meta={'unexpected': extra, 'changed': wrong})
    chk.samples.append({'build_constrained_files': tagged})
    # the Go declarations of the assembly build must have the same signatures as the portable ones
    decl = open(os.path.join(REPO, 'point_mul_table_amd64.go')).read()
    ok = ('func lookupProjectivePoint(tbl *projectivePointMultTable, out *Point, idx uint64)' in decl and
          'func lookupAffinePoint(tbl *affinePointMultTable, out *affinePoint, idx uint64)' in decl)
    chk.add('buildtags/asm-declarations-match-portable-signatures', [], ok)
    chk.discharge()
    chk.finish()


if __name__ == '__main__':
    from .common import run_main
    run_main(main)
