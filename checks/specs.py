"""Reference specifications (oracles) written from the standards over symbolic byte arrays.
Nothing here is derived from the code under test."""
from .common import tm, cat_bytes, N_ORDER, P_FIELD


def beq(b, v):
    return tm.eq(b, v, 8)


def AND(*xs):
    return tm.band_all(xs)


def OR(*xs):
    return tm.bor_all(xs)


def NOT(x):
    return tm.bnot(x)


def msb_clear(b):
    return tm.eq(tm.bv('and', b, 0x80, 8), 0, 8)


def der_uint_ok(body, upper):
    """strict-DER non-negative INTEGER body (list of byte terms) with 1 <= value < upper"""
    n = len(body)
    if n == 0:
        return False
    c = [msb_clear(body[0])]
    if n > 1:
        c.append(tm.implies(beq(body[0], 0), NOT(msb_clear(body[1]))))
    v = cat_bytes(body)
    w = 8 * n
    c.append(NOT(tm.eq(v, 0, w)))
    if upper.bit_length() <= w:
        c.append(tm.ult(v, upper, w))
    return AND(*c)


def der_sig_grammar(B, upper=N_ORDER):
    """SEQUENCE { INTEGER r, INTEGER s } strict DER with 1 <= r,s < n, short-form outer length.
    Returns (accept, r_value, s_value) with values as 264-bit terms (meaningful when accept)."""
    L = len(B)
    if L < 8 or L - 2 > 127:
        return False, 0, 0
    alts = []
    rv = 0
    sv = 0
    W = 264
    for lr in range(1, 34):
        ls = L - 6 - lr
        if ls < 1 or ls > 33:
            continue
        rb = B[4:4 + lr]
        sb = B[6 + lr:6 + lr + ls]
        cond = AND(beq(B[3], lr), beq(B[4 + lr], 0x02), beq(B[5 + lr], ls), der_uint_ok(rb, upper), der_uint_ok(sb, upper))
        alts.append(cond)
        sel = beq(B[3], lr)
        rv = tm.ite(sel, tm.zext(tm.lift(cat_bytes(rb), 8 * lr), W) if tm.is_sym(cat_bytes(rb)) else cat_bytes(rb), rv, W)
        sv = tm.ite(sel, tm.zext(tm.lift(cat_bytes(sb), 8 * ls), W) if tm.is_sym(cat_bytes(sb)) else cat_bytes(sb), sv, W)
    acc = AND(beq(B[0], 0x30), beq(B[1], L - 2), beq(B[2], 0x02), OR(*alts))
    return acc, rv, sv


def compact_grammar(B, want_len):
    L = len(B)
    if L != want_len:
        return False, 0, 0
    r = cat_bytes(B[0:32])
    s = cat_bytes(B[32:64])
    ok = AND(NOT(tm.eq(r, 0, 256)), tm.ult(r, N_ORDER, 256), NOT(tm.eq(s, 0, 256)), tm.ult(s, N_ORDER, 256))
    return ok, r, s


def bip66_grammar(B):
    """transcribed from the BIP-66 text (order-free conjunction)"""
    L = len(B)
    if L < 9 or L > 73:
        return False
    alts = []
    for lr in range(0, 256):
        if 5 + lr >= L:
            continue
        ls = L - 7 - lr
        if ls < 0 or ls > 255:
            continue
        c = [beq(B[3], lr), beq(B[5 + lr], ls)]
        if lr == 0 or ls == 0:
            continue
        c.append(msb_clear(B[4]))
        if lr > 1:
            c.append(NOT(AND(beq(B[4], 0), msb_clear(B[5]))))
        c.append(beq(B[4 + lr], 0x02))
        c.append(msb_clear(B[6 + lr]))
        if ls > 1:
            c.append(NOT(AND(beq(B[6 + lr], 0), msb_clear(B[7 + lr]))))
        alts.append(AND(*c))
    return AND(beq(B[0], 0x30), beq(B[1], L - 3), beq(B[2], 0x02), OR(*alts))


SPKI_PREFIX = bytes.fromhex('3010' '0607' '2a8648ce3d0201' '0605' '2b8104000a')  # AlgorithmIdentifier{ecPublicKey, secp256k1}


def spki_header(ptlen):
    """the unique strict-DER header for a point of ptlen bytes, up to and including the unused-bits byte"""
    inner = SPKI_PREFIX + bytes([0x03, ptlen + 1, 0x00])
    total = len(inner) + ptlen
    assert total < 128
    return bytes([0x30, total]) + inner
