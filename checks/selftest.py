"""Translator validation (guard d of the design): the SSA executor run on fully CONCRETE inputs must agree with
independent references (python big-int arithmetic, affine curve arithmetic) and with native execution of the real build.
This validates the SSA->term translation, the memory model, the intrinsics and the assembly interpreter; it decides no
property.  Usage: ./check selftest"""
import os
import random
import sys
from .common import Check, load_prog, load_globals, new_machine, tm, X, MOD, N_ORDER, P_FIELD, limbs_of, int_of_limbs, workdir, REPO
from .c04 import ec_add, ec_mul, GX, GY
from engine import asmx86, native

ROOT = MOD + '.'
R = 1 << 256


def run(seed=1, log=print):
    prog = load_prog()
    gl = load_globals(prog)
    rnd = random.Random(seed)
    failures = []
    counts = {}

    def ok(cond, what):
        counts[what.split(':')[0]] = counts.get(what.split(':')[0], 0) + 1
        if not cond:
            failures.append(what)

    ex = X.Explorer()

    def h(ctx):
        m = new_machine(prog, ctx, gl)      # real kernels, real Montgomery form, real globals
        # ---- 1. fiat kernels on random and boundary operands
        for which, mod, pkg in (('field', P_FIELD, MOD + '/internal/fiat/secp256k1montgomery.'), ('scalar', N_ORDER, MOD + '/internal/fiat/secp256k1montgomeryscalar.')):
            Rinv = pow(R, -1, mod)
            special = [0, 1, 2, mod - 1, mod - 2, R % mod, (R % mod) - 1, (1 << 255) % mod, (mod - 1) // 2, 2 ** 64 - 1, 2 ** 128 - 1, 2 ** 192, mod - 2 ** 32]
            vals = special + [rnd.randrange(mod) for _ in range(40)]
            pairs = [(a, b) for a in special for b in special[:6]] + [(rnd.choice(vals), rnd.choice(vals)) for _ in range(60)]
            for a, b in pairs:
                oa, ob, oo = m.new_obj(None, tree=limbs_of(a)), m.new_obj(None, tree=limbs_of(b)), m.new_obj(None, tree=[0] * 4)
                for fn, ref in (('Add', (a + b) % mod), ('Sub', (a - b) % mod), ('Mul', a * b * Rinv % mod)):
                    m.call(pkg + fn, [X.Ptr(oo, ()), X.Ptr(oa, ()), X.Ptr(ob, ())])
                    ok(int_of_limbs(oo.tree) == ref, 'kernel:%s.%s(%x,%x)' % (which, fn, a, b))
                for fn, ref in (('Square', a * a * Rinv % mod), ('Opp', (-a) % mod), ('ToMontgomery', a * R % mod), ('FromMontgomery', a * Rinv % mod)):
                    m.call(pkg + fn, [X.Ptr(oo, ()), X.Ptr(oa, ())])
                    ok(int_of_limbs(oo.tree) == ref, 'kernel:%s.%s(%x)' % (which, fn, a))
                # aliased call
                oc = m.new_obj(None, tree=limbs_of(a))
                m.call(pkg + 'Mul', [X.Ptr(oc, ()), X.Ptr(oc, ()), X.Ptr(oc, ())])
                ok(int_of_limbs(oc.tree) == a * a * Rinv % mod, 'kernel:%s.Mul aliased(%x)' % (which, a))
        # ---- 2. methods incl. the addition chains, sqrt, wide reduction, encodings
        FE = '(*' + MOD + '/internal/field.Element).'
        SCM = '(*' + MOD + '.Scalar).'

        def mont(v, mod):
            return limbs_of(v * R % mod)

        def unmont(l, mod):
            return int_of_limbs(l) * pow(R, -1, mod) % mod
        for v in [0, 1, 2, 7, P_FIELD - 1, rnd.randrange(P_FIELD), rnd.randrange(P_FIELD)]:
            e = m.new_obj(None, tree=[[], mont(v, P_FIELD)])
            out = m.new_obj(None, tree=[[], [0] * 4])
            m.call(FE + 'Invert', [X.Ptr(out, ()), X.Ptr(e, ())])
            ok(unmont(out.tree[1], P_FIELD) == (pow(v, P_FIELD - 2, P_FIELD)), 'method:field.Invert(%x)' % v)
            r = m.call(FE + 'Sqrt', [X.Ptr(out, ()), X.Ptr(e, ())])
            isq = pow(v, (P_FIELD - 1) // 2, P_FIELD) in (0, 1)
            got = unmont(out.tree[1], P_FIELD)
            ok(r[1] == (1 if isq else 0) and (got * got % P_FIELD == v if isq else got == 0), 'method:field.Sqrt(%x)' % v)
            bs = m.slice_elems(m.call(FE + 'Bytes', [X.Ptr(e, ())]))
            ok(bytes(bs) == v.to_bytes(32, 'big'), 'method:field.Bytes(%x)' % v)
        for v in [0, 1, N_ORDER - 1, (N_ORDER - 1) // 2, (N_ORDER + 1) // 2, rnd.randrange(N_ORDER)]:
            e = m.new_obj(None, tree=[[], mont(v, N_ORDER)])
            out = m.new_obj(None, tree=[[], [0] * 4])
            m.call(SCM + 'Invert', [X.Ptr(out, ()), X.Ptr(e, ())])
            ok(unmont(out.tree[1], N_ORDER) == pow(v, N_ORDER - 2, N_ORDER), 'method:scalar.Invert(%x)' % v)
            r = m.call(SCM + 'IsGreaterThanHalfN', [X.Ptr(e, ())])
            ok(r == (1 if v > (N_ORDER - 1) // 2 else 0), 'method:scalar.IsGreaterThanHalfN(%x)' % v)
        for L in (32, 33, 48, 64):
            src = bytes(rnd.randrange(256) for _ in range(L))
            out = m.new_obj(None, tree=[[], [0] * 4])
            m.call(FE + 'SetWideBytes', [X.Ptr(out, ()), m.new_byte_slice(list(src))])
            ok(unmont(out.tree[1], P_FIELD) == int.from_bytes(src, 'big') % P_FIELD, 'method:field.SetWideBytes@%d' % L)
        # ---- 3. curve: decode, add, double, scalar multiplications against affine arithmetic
        PT = '(*' + MOD + '.Point).'
        G = (GX, GY)

        def enc(Pa):
            return bytes([4]) + Pa[0].to_bytes(32, 'big') + Pa[1].to_bytes(32, 'big')

        def newpt(Pa):
            p, err = m.call(ROOT + 'NewPointFromBytes', [m.new_byte_slice(list(enc(Pa)))])
            assert err is None
            return p

        def affine(p):
            b = bytes(m.slice_elems(m.call(PT + 'UncompressedBytes', [p])))
            return None if b == b'\x00' else (int.from_bytes(b[1:33], 'big'), int.from_bytes(b[33:], 'big'))
        A, B = ec_mul(rnd.randrange(1, N_ORDER), G), ec_mul(rnd.randrange(1, N_ORDER), G)
        pa, pb = newpt(A), newpt(B)
        v = m.call(ROOT + 'NewIdentityPoint', [])
        ok(affine(m.call(PT + 'Add', [v, pa, pb])) == ec_add(A, B), 'curve:Add')
        ok(affine(m.call(PT + 'Double', [v, pa])) == ec_add(A, A), 'curve:Double')
        ok(affine(m.call(PT + 'Subtract', [v, pa, pa])) is None, 'curve:P-P=O')
        cb = bytes(m.slice_elems(m.call(PT + 'CompressedBytes', [pa])))
        ok(cb == bytes([2 + (A[1] & 1)]) + A[0].to_bytes(32, 'big'), 'curve:CompressedBytes')
        pc, err = m.call(ROOT + 'NewPointFromBytes', [m.new_byte_slice(list(cb))])
        ok(err is None and affine(pc) == A, 'curve:decompress')
        for s in (0, 1, 2, N_ORDER - 1, rnd.randrange(N_ORDER), (1 << 128) + 5):
            so = X.Ptr(m.new_obj(None, tree=[[], mont(s, N_ORDER)]), ())
            ok(affine(m.call(PT + 'ScalarBaseMult', [v, so])) == ec_mul(s, G), 'curve:ScalarBaseMult(%x)' % s)
            ok(affine(m.call(PT + 'scalarBaseMultVartime', [v, so])) == ec_mul(s, G), 'curve:scalarBaseMultVartime(%x)' % s)
        for s in (0, 1, N_ORDER - 1, rnd.randrange(N_ORDER)):
            so = X.Ptr(m.new_obj(None, tree=[[], mont(s, N_ORDER)]), ())
            ok(affine(m.call(PT + 'ScalarMult', [v, so, pa])) == ec_mul(s, A), 'curve:ScalarMult(%x)' % s)
            ok(affine(m.call(PT + 'scalarMultVartimeGLV', [v, so, pa])) == ec_mul(s, A), 'curve:scalarMultVartimeGLV(%x)' % s)
        return m.instr_count
    paths = ex.run(h)
    ok(len(paths) == 1 and paths[0].outcome == 'ok', 'executor:single-concrete-path (%s)' % (paths[0].value if paths else None))
    instrs = paths[0].value if paths and paths[0].outcome == 'ok' else 0

    # ---- 4. assembly interpreter vs portable Go (executed) on random concrete tables
    funcs = asmx86.parse(open(os.path.join(REPO, 'point_mul_table_amd64.s')).read())
    from .c19 import flatten_layout

    def h_asm(ctx):
        m = new_machine(prog, ctx, gl)
        for fn, tbl_t, out_t in (('lookupProjectivePoint', MOD + '.projectivePointMultTable', MOD + '.Point'),
                                 ('lookupAffinePoint', MOD + '.affinePointMultTable', MOD + '.affinePoint')):
            ttid, otid = prog.tid_by_str[tbl_t], prog.tid_by_str[out_t]
            tl, ol = flatten_layout(prog, ttid), flatten_layout(prog, otid)
            tb, ob = prog.types[ttid]['size'], prog.types[otid]['size']
            for idx in range(16):
                tw = [rnd.getrandbits(64) for _ in range(tb // 8)]
                treg = asmx86.Region('tbl', tw, tb)
                oreg = asmx86.Region('out', [0] * ((ob + 7) // 8), ob)
                asmx86.run(funcs[fn], {'tbl': ('ptr', treg, 0), 'out': ('ptr', oreg, 0), 'idx': idx}, [treg, oreg])
                tree = m.zero(ttid)
                for off, size, path, isu in tl:
                    if isu:
                        node = tree
                        for e in path[:-1]:
                            node = node[e]
                        node[path[-1]] = tw[off // 8]
                tobj, oobj = m.new_obj(ttid, tree=tree), m.new_obj(otid)
                m.call(ROOT + fn, [X.Ptr(tobj, ()), X.Ptr(oobj, ()), idx])
                same = True
                for off, size, path, isu in ol:
                    if isu:
                        node = oobj.tree
                        for e in path:
                            node = node[e]
                        same = same and node == oreg.words[off // 8]
                ok(same, 'asm:%s idx=%d' % (fn, idx))
    X.Explorer().run(h_asm)

    # ---- 5. parsers: executor vs native build on random structured DER / compact inputs
    cases = []
    for _ in range(60):
        r, s = rnd.randrange(1, N_ORDER), rnd.randrange(1, N_ORDER)
        if rnd.random() < 0.3:
            r >>= rnd.randrange(0, 250)

        def der_int(v):
            b = v.to_bytes((v.bit_length() + 7) // 8 or 1, 'big')
            if b[0] & 0x80:
                b = b'\x00' + b
            return b'\x02' + bytes([len(b)]) + b
        body = der_int(r) + der_int(s)
        d = bytearray(b'\x30' + bytes([len(body)]) + body)
        mut = rnd.random()
        if mut < 0.5:
            d[rnd.randrange(len(d))] ^= 1 << rnd.randrange(8)
        elif mut < 0.6:
            d += b'\x00'
        elif mut < 0.7:
            d = d[:-1]
        cases.append(bytes(d))
    nat = native.run('secec', [{'op': 'ParseASN1Signature', 'in': [c.hex()]} for c in cases], workdir(), repo=REPO)

    def h_parse(ctx):
        from . import models
        m = new_machine(prog, ctx, gl)
        for c, nr in zip(cases, nat):
            r, s, err = m.call(MOD + '/secec.ParseASN1Signature', [m.new_byte_slice(list(c))])
            good = (err is None) == bool(nr.get('ok'))
            if good and err is None:
                rb = bytes(m.slice_elems(m.call('(*' + MOD + '.Scalar).Bytes', [r])))
                good = rb.hex() == nr['out'][0]
            ok(good, 'parser:ParseASN1Signature(%s)' % c.hex())
    X.Explorer().run(h_parse)
    return failures, counts, instrs


def main():
    failures, counts, instrs = run(int(os.environ.get('VERIF_SEED', '1') or 1))
    print('translator validation: %s, %d SSA instructions executed concretely' % (counts, instrs))
    for f in failures[:20]:
        print('MISMATCH', f)
    if failures:
        print('ENGINE-ERROR: the executor disagrees with the reference on %d concrete cases' % len(failures))
        sys.exit(3)
    print('OK')


if __name__ == '__main__':
    main()
