"""shared pieces of the BIP-340 checks (C13, C14)"""
from .common import tm, X, MOD, cat_bytes
from . import stubs, toy as T

BTC = MOD + '/secec/bitcoin.'
W = T.W


def tagged(tag, parts):
    th = stubs.H('sha256', [[ord(c) for c in tag]])
    return stubs.H('sha256', [th, th] + parts)


def int16_of(bs):
    """toy integer of a 32-byte string whose upper 30 bytes are zero"""
    return tm.concat_w(bs[-2], 8, bs[-1], 8)


def spec_lift_x(toy, x16):
    """BIP-340 lift_x: (ok, index of the even-y point with that x)"""
    found, k = toy.lift(x16, False)
    return tm.band(tm.ult(x16, toy.p, W), found), k


def spec_verify(toy, pk16, msg, r16, s16):
    ok_p, kP = spec_lift_x(toy, pk16)
    e16 = int16_of(tagged('BIP0340/challenge', [T.be32(r16), T.be32(pk16), msg]))
    e = tm.bv('urem', e16, toy.n, W)
    R = toy.addn(s16, toy.negn(toy.muln(e, kP)))
    y = toy.Y(R)
    even = tm.eq(tm.extract(tm.lift(y, W), 0, 0), 0, 1) if tm.is_sym(y) else (y & 1) == 0
    return tm.band_all([ok_p, tm.ult(r16, toy.p, W), tm.ult(s16, toy.n, W), tm.bnot(tm.eq(R, 0, W)), even, tm.eq(toy.X(R), r16, W)])


def y_even(toy, k):
    y = toy.Y(k)
    return tm.eq(tm.extract(tm.lift(y, W), 0, 0), 0, 1) if tm.is_sym(y) else (y & 1) == 0


def spec_sign(toy, dprime, aux, msg):
    """BIP-340 Sign: returns (fail_kzero, sig bytes (64 terms), pieces)"""
    n = toy.n
    d = tm.ite(y_even(toy, dprime), dprime, toy.negn(dprime), W)
    px = toy.X(dprime)
    pb = T.be32(px)
    ha = tagged('BIP0340/aux', [aux])
    db = T.be32(d)
    t = [tm.bv('xor', a, b, 8) for a, b in zip(db, ha)]
    rand = tagged('BIP0340/nonce', [t, pb, msg])
    kp = tm.bv('urem', int16_of(rand), n, W)
    fail = tm.eq(kp, 0, W)
    k = tm.ite(y_even(toy, kp), kp, toy.negn(kp), W)
    rx = toy.X(kp)
    rb = T.be32(rx)
    e = tm.bv('urem', int16_of(tagged('BIP0340/challenge', [rb, pb, msg])), n, W)
    s = toy.addn(k, toy.muln(e, d))
    return fail, rb + T.be32(s), dict(d=d, px=px, kp=kp, k=k, rx=rx, e=e, s=s)


def snapshot(m, root):
    """deep snapshot of everything reachable from value `root`: list of (obj, copy of tree)"""
    seen = {}
    out = []

    def walk(v):
        if isinstance(v, X.Ptr):
            if v.obj is not None and v.obj.id not in seen:
                seen[v.obj.id] = True
                out.append((v.obj, copytree(v.obj.tree)))
                walk(v.obj.tree)
        elif isinstance(v, X.Slice):
            if v.obj is not None and v.obj.id not in seen:
                seen[v.obj.id] = True
                out.append((v.obj, copytree(v.obj.tree)))
                walk(v.obj.tree)
        elif isinstance(v, X.Iface):
            walk(v.val)
        elif isinstance(v, (list, tuple)):
            for x in v:
                walk(x)

    def copytree(t):
        if isinstance(t, list):
            return [copytree(x) for x in t]
        return t
    walk(root)
    return out


def unchanged(m, snap):
    """Bool term: every snapshotted object still holds the same value"""
    conds = []

    def cmp(a, b):
        if isinstance(a, list) and isinstance(b, list):
            if len(a) != len(b):
                conds.append(False)
                return
            for x, y in zip(a, b):
                cmp(x, y)
        elif isinstance(a, X.Abs) and isinstance(b, X.Abs):
            if isinstance(a.v, str) or isinstance(b.v, str):
                conds.append(a.v == b.v)
            else:
                conds.append(tm.eq(a.v, b.v, W))
        elif isinstance(a, X.Slice) and isinstance(b, X.Slice):
            conds.append(a.obj is b.obj and a.path == b.path and m.equal_values(a.off, b.off) is True and
                         m.equal_values(a.len, b.len) is True and m.equal_values(a.cap, b.cap) is True)
        elif isinstance(a, X.Slice) or isinstance(b, X.Slice):
            conds.append(False)
        else:
            conds.append(m.equal_values(a, b))
    for o, t in snap:
        cmp(o.tree, t)
    return tm.band_all(conds)
