"""C20 Keys, points, scalars and tables are safe for concurrent read-only use.

Schedules are not enumerated.  Each read-only operation is executed symbolically (all inputs) with a write monitor:
every store must target an object allocated during the call (or the call's own designated receiver/out buffer); a
store to a pre-existing shared operand or to package-level state is a violation.  Operations that only read shared
state are data-race free and return their sequential results under every interleaving of any number of goroutines."""
import os
import z3
from .common import Check, load_prog, load_globals, new_machine, tm, X, MOD, N_ORDER, P_FIELD, sym_limbs, sym_bytes, cat_limbs
from . import models, stubs, toy as T, c06, groupalg as GA
from .c07 import digest_bytes

ROOT = MOD + '.'
SECEC = MOD + '/secec.'
BTC = MOD + '/secec/bitcoin.'
PT = '(*' + MOD + '.Point).'
SC = '(*' + MOD + '.Scalar).'
FE = '(*' + MOD + '/internal/field.Element).'
W = T.W


def reachable(v, acc=None):
    """ids of all objects reachable from value v"""
    acc = {} if acc is None else acc

    def walk(x):
        if isinstance(x, (X.Ptr, X.Slice)):
            if x.obj is not None and x.obj.id not in acc:
                acc[x.obj.id] = x.obj
                walk(x.obj.tree)
        elif isinstance(x, X.Iface):
            walk(x.val)
        elif isinstance(x, (list, tuple)):
            for y in x:
                walk(y)
    walk(v)
    return acc


class Monitor:
    """run fn() with the write monitor on; shared = values whose reachable objects are shared read-only operands"""

    def __init__(self, m, shared, private=()):
        self.m = m
        self.shared = {}
        for v in shared:
            reachable(v, self.shared)
        self.private = {}
        for v in private:
            reachable(v, self.private)

    def __enter__(self):
        self.m.epoch += 1
        self.m.store_log = []
        return self

    def __exit__(self, *a):
        self.log = self.m.store_log
        self.m.store_log = None
        return False

    def violations(self):
        out = []
        for o, path in self.log:
            if o.id in self.private:
                continue
            if o.is_global or o.epoch < 0:
                out.append(('store to package-level state', o.label, path[:3]))
            elif o.id in self.shared:
                out.append(('store to a shared operand', o.label, path[:3]))
            elif o.epoch != self.m.epoch:
                out.append(('store to a pre-existing object', o.label, path[:3]))
        return out


def main():
    chk = Check('C20')
    prog = load_prog()
    gl = load_globals(prog)
    only = os.environ.get('VERIF_ONLY', '')
    chk.summaries.update(models.VALUE_MODEL_SUMMARY)
    chk.summaries.update(T.CONTRACT_SUMMARY)
    chk.summaries.update(GA.SUMMARY)
    chk.stubs += stubs.STUB_NOTES
    tasks = []

    def record(sub, ctx, label, mon, extra_ok=True):
        v = mon.violations()
        ctx.check(not v, 'no-store-to-shared-or-global-state' + ('' if not v else ': %s' % (v[:3],)))
        sub.samples.append({'operation': label, 'stores': len(mon.log), 'shared_objects': len(mon.shared), 'violations': v[:3]})

    # ------------------------------------------------------------------ a/b. ring, point, codec operations (real code, value model)
    def fmachine(ctx):
        m = new_machine(prog, ctx, gl, value_model=True)
        c06.install_field_contracts(m)
        return m

    def elem(m, name, mod):
        l = sym_limbs(name)
        m.ctx.assume(tm.ult(tm.lift(cat_limbs(l), 256), mod, 256))      # representation invariant of Element / Scalar
        return X.Ptr(m.new_obj(None, tree=[[], l], label=name), ())

    def t_ring(sub):
        for M, mod, which in ((FE, P_FIELD, 'field'), (SC, N_ORDER, 'scalar')):
            ops = [('Add', 2), ('Subtract', 2), ('Multiply', 2), ('Negate', 1), ('Square', 1), ('Invert', 1), ('Set', 1), ('Equal', -1), ('IsZero', 0), ('Bytes', 0)]
            ops += [('IsOdd', 0)] if which == 'field' else [('IsGreaterThanHalfN', 0)]
            for name, n in ops:
                def h(ctx, M=M, name=name, n=n, mod=mod):
                    m = new_machine(prog, ctx, gl, value_model=True)
                    models.install_value_model(m, mul='uf')
                    recv = elem(m, 'recv', mod)
                    opsv = [elem(m, 'op%d' % i, mod) for i in range(abs(n))]
                    shared = opsv if n > 0 else [recv] + opsv      # predicates / encoders read their receiver
                    with Monitor(m, shared, private=[recv] if n > 0 else []) as mon:
                        m.call(M + name, [recv] + opsv)
                    record(sub, ctx, '%s.%s' % (which, name), mon)
                    sub.note_machine(m)
                sub.explore('ring/%s.%s' % (which, name), h, mode='bv')
    if not only or 'ring' in only:
        tasks.append(('ring', t_ring))

    def t_point(sub):
        ops = [('Add', 2), ('Double', 1), ('Subtract', 2), ('Negate', 1), ('Set', 1), ('Equal', -1), ('IsIdentity', 0), ('IsYOdd', 0),
               ('UncompressedBytes', 0), ('CompressedBytes', 0), ('XBytes', 0)]
        for name, n in ops:
            def h(ctx, name=name, n=n):
                m = fmachine(ctx)
                recv = X.Ptr(c06.new_point(m, 'recv', valid=True), ())
                opsv = [X.Ptr(c06.new_point(m, 'op%d' % i, valid=True), ()) for i in range(abs(n))]
                shared = opsv if n > 0 else [recv] + opsv
                with Monitor(m, shared, private=[recv] if n > 0 else []) as mon:
                    m.call(PT + name, [recv] + opsv)
                record(sub, ctx, 'Point.%s' % name, mon)
                sub.note_machine(m)
            sub.explore('point/%s' % name, h, mode='bv')
        for L in (1, 33, 65):
            def h(ctx, L=L):
                m = fmachine(ctx)
                src = m.new_byte_slice(sym_bytes('B', L), 'src')
                with Monitor(m, [src]) as mon:
                    m.call(ROOT + 'NewPointFromBytes', [src])
                record(sub, ctx, 'NewPointFromBytes@%d' % L, mon)
                sub.note_machine(m)
            sub.explore('point/NewPointFromBytes@len%d' % L, h, mode='bv')

        def hr(ctx):
            m = fmachine(ctx)
            r = elem(m, 'r', N_ORDER)
            with Monitor(m, [r]) as mon:
                m.call(ROOT + 'RecoverPoint', [r, tm.var('id', 8)])
            record(sub, ctx, 'RecoverPoint', mon)
            sub.note_machine(m)
        sub.explore('point/RecoverPoint', hr, mode='bv')
    if not only or 'point' in only:
        tasks.append(('point', t_point))

    # ------------------------------------------------------------------ c. scalar multiplications over shared points/scalars/tables
    def t_mult(sub):
        from . import c05

        def gm(ctx):
            m = new_machine(prog, ctx, gl, value_model=True)
            models.install_value_model(m, mul='uf', which=('scalar',))
            GA.install(m, endo=dict([('P', 'Pbeta'), ('Q', 'Qbeta')] + [('P%d' % i, 'P%dbeta' % i) for i in range(4)]))
            c05.install_affine(m)
            ctx.z3_checks = []
            m.unwind = 80

            def huge(mm):
                tree = [[c05.affine_entry(GA.base('G').scale((j + 1) * 256 ** i)) for j in range(255)] for i in range(32)]
                return X.Ptr(X.Obj(tree, None, label='generatorHugeAffineTable(heap)', is_global=True, epoch=-1), ())

            def odd(mm):
                tree = [[c05.affine_entry(GA.base('G').scale(16 * (j + 1) * 256 ** i)) for j in range(15)] for i in range(32)]
                return X.Ptr(X.Obj(tree, None, label='generatorOddAffineTable(heap)', is_global=True, epoch=-1), ())
            m.global_init[ROOT + 'generatorHugeAffineTable'] = huge
            m.global_init[ROOT + 'generatorOddAffineTable'] = odd
            # the window lookups are read-only on the table by C04/C05 lookup/* ; here: closed forms that touch only `sum`
            TBL = '(*' + MOD + '.projectivePointMultTable).'
            for name in (TBL + 'SelectAndAdd', TBL + 'SelectAndAddVartime', c05.ATBL + 'SelectAndAdd', c05.HTBL + 'SelectAndAddVartime'):
                m.contracts[name] = (lambda m, a: m.grp_put(a[1], m.grp_raw(a[1]) + GA.base('W')))

            # splitGLV is branch-free and is monitored on its own (mult/splitGLV); inside the ladders its result is two fresh halves
            def c_split(m, a):
                out = []
                for nm in ('k1', 'k2'):
                    l = sym_limbs(nm)
                    ctx.assume(tm.ult(tm.lift(cat_limbs(l), 256), N_ORDER, 256))
                    out.append(X.Ptr(m.new_obj(None, tree=[[], list(l)], label=nm), ()))
                return tuple(out)
            if not getattr(ctx, 'keep_split', False):
                m.contracts[SC + 'splitGLV'] = c_split
            return m

        def scal(m, name):
            return X.Ptr(m.new_obj(None, tree=[[], sym_limbs(name)], label=name), ())
        runs = [
            ('ScalarMult', lambda m, v, s, p, q: m.call(PT + 'ScalarMult', [v, s[0], p])),
            ('scalarMultVartimeGLV', lambda m, v, s, p, q: m.call(PT + 'scalarMultVartimeGLV', [v, s[0], p])),
            ('ScalarBaseMult', lambda m, v, s, p, q: m.call(PT + 'ScalarBaseMult', [v, s[0]])),
            ('scalarBaseMultVartime', lambda m, v, s, p, q: m.call(PT + 'scalarBaseMultVartime', [v, s[0]])),
            ('DoubleScalarMultBasepointVartime', lambda m, v, s, p, q: m.call(PT + 'DoubleScalarMultBasepointVartime', [v, s[0], s[1], p])),
        ]
        def h_split(ctx):
            ctx.keep_split = True
            m = gm(ctx)
            s0 = scal(m, 's0')
            with Monitor(m, [s0]) as mon:
                m.call(SC + 'splitGLV', [s0])
            record(sub, ctx, 'splitGLV', mon)
            sub.note_machine(m)
        sub.explore('mult/splitGLV', h_split, mode='bv')
        for name, run in runs:
            def h(ctx, name=name, run=run):
                m = gm(ctx)
                v = m.grp_new(GA.Lin({'OLD': z3.IntVal(1)}))
                p, q = m.grp_new(GA.base('P')), m.grp_new(GA.base('Q'))
                s = [scal(m, 's0'), scal(m, 's1')]
                with Monitor(m, [p, q] + s, private=[v]) as mon:
                    run(m, v, s, p, q)
                record(sub, ctx, name, mon)
                sub.note_machine(m)
            sub.explore('mult/%s' % name, h, mode='bv', max_paths=64)
        for fn in ('MultiScalarMult', 'MultiScalarMultVartime'):
            for l in (0, 1, 2, 3):
                def h(ctx, fn=fn, l=l):
                    m = gm(ctx)
                    v = m.grp_new(GA.Lin({'OLD': z3.IntVal(1)}))
                    pts = [m.grp_new(GA.base('P%d' % i)) for i in range(l)]
                    sc = [scal(m, 's%d' % i) for i in range(l)]
                    so, po = m.new_obj(None, tree=list(sc), label='scalars'), m.new_obj(None, tree=list(pts), label='points')
                    sl = X.Slice(so, (), 0, l, l) if l else X.NILSLICE
                    pl = X.Slice(po, (), 0, l, l) if l else X.NILSLICE
                    with Monitor(m, [sl, pl], private=[v]) as mon:
                        m.call(PT + fn, [v, sl, pl])
                    record(sub, ctx, '%s@%d' % (fn, l), mon)
                    sub.note_machine(m)
                sub.explore('mult/%s@len%d' % (fn, l), h, mode='bv', max_paths=64)
    if not only or 'mult' in only:
        tasks.append(('mult', t_mult))

    # ------------------------------------------------------------------ d. hash to curve (package constants of internal/swu are shared)
    def t_h2c(sub):
        from . import c15
        for L in (32, 48, 64):
            def h(ctx, L=L):
                m = fmachine(ctx)

                def ev(p):
                    return cat_limbs(list(m.load(p)[1]))

                def c_sqrtratio(m, a):
                    isq, y = c15.sqrt_ratio_uf(ev(a[1]), ev(a[2]))
                    m.store(X.Ptr(a[0].obj, a[0].path + (1,)), models.split_limbs(y))
                    return (a[0], tm.ite(isq, 1, 0, 64))
                m.contracts[FE + 'SqrtRatio'] = c_sqrtratio

                def c_wide(m, a):
                    el = m.slice_elems(a[1])
                    from .common import cat_bytes as _cb
                    v = tm.uf("os2ip_mod_p_len%d" % len(el), [tm.lift(_cb(el), 8 * len(el))], 256)
                    m.store(X.Ptr(a[0].obj, a[0].path + (1,)), models.split_limbs(v))
                    return a[0]
                m.contracts[FE + 'SetWideBytes'] = c_wide
                src = m.new_byte_slice(sym_bytes('B', L), 'src')
                v = X.Ptr(c06.new_point(m, 'recv'), ())
                with Monitor(m, [src], private=[v]) as mon:
                    m.call(PT + 'SetUniformBytes', [v, src])
                record(sub, ctx, 'SetUniformBytes@%d' % L, mon)
                sub.note_machine(m)
            paths = sub.explore('h2c/SetUniformBytes@len%d' % L, h, mode='bv')
            sub.add('h2c/SetUniformBytes@len%d/witness' % L, [], any(p.outcome == 'ok' for p in paths))
    if not only or 'h2c' in only:
        tasks.append(('h2c', t_h2c))

    # ------------------------------------------------------------------ e. protocol operations on shared keys (toy interpretation)
    def t_proto(sub):
        toy = T.get_toy(43, 31)

        def pm(ctx):
            stubs.NARROW['on'] = True
            stubs.XOF_MAX_READS['n'] = 2
            m = new_machine(prog, ctx, gl, value_model=True)
            stubs.install_hash_stubs(m)
            stubs.install_crypto_hash(m)
            T.install(m, toy)
            m.unwind = 40
            return m

        def keys(m, ctx):
            d, q = tm.var('d', W), tm.var('q', W)
            for v in (d, q):
                ctx.assume(tm.band(tm.bnot(tm.eq(v, 0, W)), tm.ult(v, toy.n, W)))
            return T.new_private_key(m, d), T.new_public_key(m, q)
        SKM = '(*' + MOD + '/secec.PrivateKey).'
        PKM = '(*' + MOD + '/secec.PublicKey).'

        def sig_args(m):
            r, s = tm.var('r', W), tm.var('s', W)
            return T.new_scalar(m, tm.bv('urem', r, toy.n, W)), T.new_scalar(m, tm.bv('urem', s, toy.n, W))
        ops = {
            'PrivateKey.SignRaw': lambda m, sk, pk, dg: m.call(SKM + 'SignRaw', [sk, stubs.reader_iface(stubs.ScriptedReader(sym_bytes('ent', 64))), dg]),
            'PrivateKey.ECDH': lambda m, sk, pk, dg: m.call(SKM + 'ECDH', [sk, pk]),
            'PrivateKey.Bytes': lambda m, sk, pk, dg: m.call(SKM + 'Bytes', [sk]),
            'PrivateKey.Scalar': lambda m, sk, pk, dg: m.call(SKM + 'Scalar', [sk]),
            'PrivateKey.PublicKey': lambda m, sk, pk, dg: m.call(SKM + 'PublicKey', [sk]),
            'PublicKey.VerifyRaw': lambda m, sk, pk, dg: m.call(PKM + 'VerifyRaw', [pk, dg] + list(sig_args(m))),
            'PublicKey.Bytes': lambda m, sk, pk, dg: m.call(PKM + 'Bytes', [pk]),
            'PublicKey.CompressedBytes': lambda m, sk, pk, dg: m.call(PKM + 'CompressedBytes', [pk]),
            'PublicKey.Point': lambda m, sk, pk, dg: m.call(PKM + 'Point', [pk]),
            'PublicKey.Equal': lambda m, sk, pk, dg: m.call(PKM + 'Equal', [pk, X.Iface('*' + MOD + '/secec.PublicKey', T.fld(m, sk, T.PRIV_T, 'publicKey'))]),
            'RecoverPublicKey': lambda m, sk, pk, dg: m.call(SECEC + 'RecoverPublicKey', [dg] + list(sig_args(m)) + [tm.var('v', 8)]),
        }
        for name, run in ops.items():
            def h(ctx, name=name, run=run):
                m = pm(ctx)
                sk, pk = keys(m, ctx)
                e16, hb = digest_bytes(32)
                dg = m.new_byte_slice(hb, 'digest')
                with Monitor(m, [sk, pk, dg]) as mon:
                    run(m, sk, pk, dg)
                record(sub, ctx, name, mon)
                sub.note_machine(m)
            sub.explore('proto/%s' % name, h, mode='bv', unwind_ok=True)
        # Schnorr
        SSK = '(*' + MOD + '/secec/bitcoin.SchnorrPrivateKey).'
        SPK = '(*' + MOD + '/secec/bitcoin.SchnorrPublicKey).'

        def hs(ctx):
            m = pm(ctx)
            sk, pk = keys(m, ctx)
            ssk = m.call(BTC + 'NewSchnorrPrivateKeyFromECDSA', [sk])
            msg = m.new_byte_slice(sym_bytes('m', 32), 'msg')
            with Monitor(m, [ssk, sk, msg]) as mon:
                m.call(SSK + 'Sign', [ssk, stubs.reader_iface(stubs.ScriptedReader(sym_bytes('aux', 32))), msg, None])
            record(sub, ctx, 'SchnorrPrivateKey.Sign', mon)
            spk = m.call(SSK + 'PublicKey', [ssk])
            sig = m.new_byte_slice(T.be32(tm.var('r16', W)) + T.be32(tm.var('s16', W)), 'sig')
            with Monitor(m, [spk, ssk, msg, sig]) as mon:
                m.call(SPK + 'Verify', [spk, msg, sig])
            record(sub, ctx, 'SchnorrPublicKey.Verify', mon)
            with Monitor(m, [spk]) as mon:
                m.call(SPK + 'Bytes', [spk])
                m.call(SPK + 'Point', [spk])
            record(sub, ctx, 'SchnorrPublicKey.Bytes/Point', mon)
            sub.note_machine(m)
        sub.explore('proto/Schnorr', hs, mode='bv', unwind_ok=True)
    if not only or 'proto' in only:
        tasks.append(('proto', t_proto))

    # ------------------------------------------------------------------ f. package-level state: no lazy initialisation
    def t_globals(sub):
        # every package-level variable of the library is written only by package initialisers: scan the SSA for
        # Store instructions whose address is (derived from) a global, outside init functions
        bad = []
        n_glob = 0
        for name, f in prog.funcs.items():
            if not name.startswith(MOD) or 'blocks' not in f:
                continue
            if name.endswith('.init') or '.init#' in name or '.init$' in name:
                continue
            for b in f['blocks']:
                for I in b['instrs']:
                    if I['op'] == 'Store' and I['addr'].get('k') == 'g':
                        bad.append((name, I['addr']['n'], I.get('pos')))
        for g in prog.globals.values():
            if g['pkg'].startswith(MOD):
                n_glob += 1
        sub.add('globals/no-direct-store-to-package-variables-outside-init', [], not bad, meta={'stores': bad[:5], 'package_variables': n_glob})
        # sync.Once / lazy-init patterns would appear as calls into package sync
        lazy = [n for n, f in prog.funcs.items() if n.startswith(MOD) and 'blocks' in f and any(
            I['op'] == 'Call' and isinstance(I['call'].get('fn'), dict) and str(I['call']['fn'].get('n', '')).startswith('(*sync.') for b in f['blocks'] for I in b['instrs'])]
        sub.add('globals/no-lazy-initialisation', [], not lazy, meta={'functions': lazy[:5]})
    if not only or 'globals' in only:
        tasks.append(('globals', t_globals))

    chk.bounds.append('read-only operations covered: Element/Scalar methods, Point arithmetic/predicates/encoders/decoders, RecoverPoint, all scalar multiplications (lists up to 3), '
                      'SetUniformBytes, ECDSA sign/verify/recover, ECDH, key accessors, Schnorr sign/verify -- each for all input values (symbolic), write-set checked per path')
    chk.assumptions.append('stdlib hash / XOF / rand objects are created per call (observed: constructed inside the call) and are themselves race-free')
    chk.assumptions.append('Go memory model: package initialisation happens-before main; goroutines that only read shared memory do not race')
    chk.outside.append('operations with a caller-supplied receiver shared between goroutines (documented as not read-only); the runtime / compiler')
    chk.run_tasks(tasks)
    chk.discharge()
    chk.finish()


if __name__ == '__main__':
    from .common import run_main
    run_main(main)
