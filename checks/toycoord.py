"""Toy-coordinate interpretation of the scalar-multiplication layers (C04, C05, C16).

The abstract-group interpretation (groupalg.py) decides the window / ladder logic for every full-width scalar, but a
Point has no coordinates there: code that reads or writes x, y, z inside a ladder, a table routine or a multiplication
entry point (an inline normalisation, a hand-rolled copy, a shortcut on Z) has no image.  Here the same routines are
executed *end to end at coordinate level* on a real curve y^2 = x^3 + 7 over F_q (q tiny): field.Element is a 16-bit value
mod q (fieldalg.ToyField, everything interpreted, code below the method level runs on its limb image), point.go /
point_projective.go / the table code run from their real SSA, and the result is compared with the group Z/n' through the
x/y tables of the toy curve: a valid projective representative of the expected group element, flagged valid.

Scalars keep their real 4x64-bit representation (R = 1 value model): the ladders only slice them into windows, so a
"scalar" here is any 256-bit string whose *symbolic* windows are chosen by the harness and whose other windows are
concrete; the expected group element is (sum of windows * weight) mod n'.
"""
from .common import tm, X, MOD, new_machine, point_tree, point_get

PROG = {'p': None}
from . import fieldalg as FA, models

W = 16
ROOT = MOD + '.'
PT = '(*' + MOD + '.Point).'
POINT_T = MOD + '.Point'


def machine(prog, ctx, gl, toy, scalar_mul='uf'):
    m = new_machine(prog, ctx, gl, value_model=True)
    PROG['p'] = prog
    alg = FA.ToyField(toy.p)
    g = toy.G
    FA.install(m, alg, {ROOT + 'feGX': g[0], ROOT + 'feGY': g[1]})   # generator mapped by role; b, 3b are read from the tree
    models.install_value_model(m, mul=scalar_mul, which=('scalar',))
    return m, alg


def point(m, alg, toy, name, k, lam, valid=True, extra='zero'):
    """projective representative (lam*x_k, lam*y_k, lam) of k*G', or (0, lam, 0) for k = 0 (lam != 0)"""
    if isinstance(k, tm.T):
        isid = tm.eq(k, 0, W)
        x = tm.ite(isid, 0, alg.mul(lam, toy.X(k)), W)
        y = tm.ite(isid, lam, alg.mul(lam, toy.Y(k)), W)
        z = tm.ite(isid, 0, lam, W)
    elif k == 0:
        x, y, z = 0, lam, 0
    else:
        x, y, z = alg.mul(lam, toy.mult[k][0]), alg.mul(lam, toy.mult[k][1]), lam
    tree = point_tree(m, name, X.Abs('fe', x), X.Abs('fe', y), X.Abs('fe', z), valid, extra=extra)
    return m.new_obj(None, tree=tree, label='Point:' + name)


def index_of(alg, toy, o):
    """(valid, k): is the object a valid projective point, and which group element"""
    x, y, z = [FA.leaf_value(point_get(PROG['p'], o, f)) for f in ('x', 'y', 'z')]
    zi = alg.inv(z)
    ax, ay = alg.mul(x, zi), alg.mul(y, zi)
    on, k = toy.on_curve(ax, ay)
    isid = tm.eq(z, 0, W)
    valid = tm.ite(isid, tm.band(tm.eq(x, 0, W), tm.bnot(tm.eq(y, 0, W))), on, 0)
    return valid, tm.ite(isid, 0, k, W)


def affine_entry(toy, k):
    """affinePoint{x, y} for k*G' (k mod n' != 0); an entry that would be the identity has no affine form: it is filled
    with (0, 0), which is not on the curve, and the harness assumes its window value never selects it"""
    k %= toy.n
    if k == 0:
        return [X.Abs('fe', 0), X.Abs('fe', 0)]
    x, y = toy.mult[k]
    return [X.Abs('fe', x), X.Abs('fe', y)]


def install_generator_tables(m, toy):
    """toy images of the embedded tables: huge[i][j] = (j+1)*256^i*G', odd[i][j] = 16*(j+1)*256^i*G' (the statement C05's
    ground check pins for the real tables)"""
    def huge(mm):
        tree = [[affine_entry(toy, (j + 1) * 256 ** i) for j in range(255)] for i in range(32)]
        return X.Ptr(mm.new_obj(None, tree=tree, label='generatorHugeAffineTable'), ())

    def odd(mm):
        tree = [[affine_entry(toy, 16 * (j + 1) * 256 ** i) for j in range(15)] for i in range(32)]
        return X.Ptr(mm.new_obj(None, tree=tree, label='generatorOddAffineTable'), ())
    m.global_init[ROOT + 'generatorHugeAffineTable'] = huge
    m.global_init[ROOT + 'generatorOddAffineTable'] = odd


def windowed_scalar(name, sym_pos, width, rng, nwin=None, zero_frac=0.3, tail=1, fix=None):
    """a 256-bit value made of `width`-bit windows: windows in sym_pos are symbolic variables; windows above the highest symbolic
    one are concrete (pseudo-random from rng, a share of them zero: the ladder state is concrete until the first symbolic window
    is consumed); windows below it are zero except `tail` pseudo-randomly placed non-zero ones (every non-zero window consumed
    after a symbolic one deepens the term by one point addition; the multi-window flow for arbitrary scalars is the abstract
    group layer's claim).  fix(j, v) may adjust a concrete window value.  Returns (limbs, windows); windows[j] has weight
    2^(width*j)."""
    nwin = nwin or 256 // width
    top = max(sym_pos) if sym_pos else -1
    below = [j for j in range(top) if j not in sym_pos]
    keep = set(rng.sample(below, min(tail, len(below)))) if below else set()
    wins = []
    for j in range(nwin):
        if j in sym_pos:
            wins.append(tm.var('%s_w%d' % (name, j), width))
            continue
        if j > top:
            v = 0 if rng.random() < zero_frac else rng.randrange(1 << width)
        else:
            v = rng.randrange(1, 1 << width) if j in keep else 0
        wins.append(fix(j, v) if fix else v)
    return limbs_of_windows(wins, width), wins


def limbs_of_windows(wins, width):
    limbs = []
    per = 64 // width
    for li in range(4):
        v, vw = 0, 0
        for j in range(per * li + per - 1, per * li - 1, -1):   # most significant window of the limb first
            v = tm.concat_w(v, vw, wins[j], width)
            vw += width
        limbs.append(v)
    return limbs


def window_sum_mod(toy, wins, width):
    """(sum_j wins[j] * 2^(width*j)) mod n' as a W-bit term"""
    acc = 0
    for j, w in enumerate(wins):
        wt = pow(2, width * j, toy.n)
        if isinstance(w, tm.T):
            t = toy.modn(tm.bv('mul', tm.zext(w, W), wt, W))
            acc = toy.addn(acc, t)
        else:
            acc = toy.addn(acc, (w * wt) % toy.n) if isinstance(acc, tm.T) else (acc + w * wt) % toy.n
    return acc


def install_endomorphism(m, toy):
    """toy image of the GLV endomorphism: feBeta is mapped by role to a primitive cube root of unity beta' mod q, and
    (x, y) -> (beta' x, y) is multiplication by lambda' on the toy group.  Returns lambda'."""
    q, n = toy.p, toy.n
    beta = next(b for b in range(2, q) if pow(b, 3, q) == 1)
    gx, gy = toy.G
    lam = toy.index[((beta * gx) % q, gy)]
    assert (lam * lam + lam + 1) % n == 0
    for k in range(1, n):       # the map is the endomorphism lambda' on every group element
        x, y = toy.mult[k]
        assert toy.index[((beta * x) % q, y)] == (lam * k) % n
    m.global_init[ROOT + 'feBeta'] = lambda mm: X.Ptr(mm.new_obj(None, tree=X.Abs('fe', beta), label='const:feBeta(toy)'), ())
    return lam


def new_scalar(m, limbs):
    return X.Ptr(m.new_obj(None, tree=[[], list(limbs)], label='Scalar'), ())


SUMMARY = {
    'field.Element methods (toy field F_q)': 'arithmetic mod q on 16-bit values, table inverse / square root; full-width counterparts discharged by C01',
    'GLV endomorphism (toy image)': "feBeta -> a primitive cube root of unity beta' mod q; (x,y) -> (beta' x, y) is multiplication by lambda' on the toy group (checked for "
                                    "every group element when the machine is built); the real beta / lambda pair is pinned by C04 const/*",
    'generator tables (toy image)': 'huge[i][j] = (j+1)*256^i*G\', odd[i][j] = 16*(j+1)*256^i*G\' on the toy curve: the statement the ground check '
                                    'table/contents decides for the embedded tables of the current tree',
}
