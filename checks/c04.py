"""C04 Variable-base scalar multiplication returns s*P for every scalar and point."""
import os
import z3
from .common import Check, load_prog, load_globals, new_machine, tm, X, MOD, N_ORDER, P_FIELD, sym_limbs, cat_limbs, cat_bytes, point_get
from . import models, groupalg as GA

ROOT = MOD + '.'
SC = '(*' + MOD + '.Scalar).'
PT = '(*' + MOD + '.Point).'
TBL = '(*' + MOD + '.projectivePointMultTable).'
N = N_ORDER

# --- specification constants (SEC 2 / GLV literature), computed here, never read from the code
LAMBDA = 0x5363ad4cc05c30e0a5261c028812645a122e22ea20816678df02967c1b23bd72
BETA = 0x7ae96a2b657c07106e64479eac3434e99cf0497512f58995c1396c28719501ee
GX = 0x79be667ef9dcbbac55a06295ce870b07029bfcdb2dce28d959f2815b16f81798
GY = 0x483ada7726a3c4655da4fbfc0e1108a8fd17b448a68554199c47d08ffb10d4b8


def centered(x, m=N):
    x %= m
    return x - m if x > m // 2 else x


def ec_add(P, Q, p=P_FIELD):
    if P is None:
        return Q
    if Q is None:
        return P
    x1, y1 = P
    x2, y2 = Q
    if x1 == x2 and (y1 + y2) % p == 0:
        return None
    l = (3 * x1 * x1 * pow(2 * y1, -1, p)) % p if P == Q else ((y2 - y1) * pow(x2 - x1, -1, p)) % p
    x3 = (l * l - x1 - x2) % p
    return (x3, (l * (x1 - x3) - y1) % p)


def ec_mul(k, P):
    R = None
    while k:
        if k & 1:
            R = ec_add(R, P)
        P = ec_add(P, P)
        k >>= 1
    return R


def strip_zext_t(t):
    while isinstance(t, tm.T) and t.op == 'zext':
        t = t.args[0]
    return t


def global_scalar(m, name):
    """plain value of a package-level *Scalar (value model)"""
    t = m.load(m.load(m.global_ptr(ROOT + name)))
    return sum(int(x) << (64 * i) for i, x in enumerate(t[1]))


def global_elem(m, name):
    t = m.load(m.load(m.global_ptr(ROOT + name)))
    return sum(int(x) << (64 * i) for i, x in enumerate(t[1]))


def main():
    chk = Check('C04')
    only = os.environ.get('VERIF_ONLY', '')
    tasks = build(chk, only)
    if not only or 'dep' in only:
        from .common import include_dependency
        include_dependency(chk, tasks, 'C16', 'dsm', '"the variable-time multiply used by verification" is entered through DoubleScalarMultBasepointVartime (same file), '
                           'which wraps scalarMultVartimeGLV: its receiver/argument handling is decided here as well')
    chk.run_tasks(tasks)
    gone = {e['task'] for e in chk.extra.get('layers_not_applicable', [])}
    if 'coord' in gone and ('ladder' in gone or 'table' in gone):
        # each multiplication layer names the other as its fall-back: if both have no image of the current tree, nothing decides it
        chk.log('ENGINE-ERROR: neither the abstract-group nor the coordinate-level layer can run the multiplication routines of the current tree')
        chk.engine_errors = getattr(chk, 'engine_errors', 0) + 1
    chk.discharge()
    chk.finish()


def build(chk, only=''):
    """append this check's tasks (restricted to the groups named in `only`) to a task list; also used by the checks that
    depend on this one's contracts (common.include_dependency)"""
    prog = load_prog()
    gl = load_globals(prog)
    chk.summaries.update(models.VALUE_MODEL_SUMMARY)
    chk.summaries.update(GA.SUMMARY)
    tasks = []
    consts = {}

    def vm(ctx, mul='uf'):
        m = new_machine(prog, ctx, gl, value_model=True)
        models.install_value_model(m, mul=mul)
        return m

    # read the constants of the current tree once (they parametrise the obligations below)
    def hc(ctx):
        m = vm(ctx)
        for nme in ('scNegLambda', 'scNegB1', 'scNegB2', 'scG1', 'scG2'):
            consts[nme] = global_scalar(m, nme)
        consts['feBeta'] = global_elem(m, 'feBeta')
    X.Explorer().run(hc)
    lam = (-consts['scNegLambda']) % N
    b1, b2 = centered(-consts['scNegB1']), centered(-consts['scNegB2'])
    a1, a2 = centered(-b1 * lam), centered(-b2 * lam)     # a_i + b_i*lambda = 0 (mod n) by construction
    g1, g2 = consts['scG1'], consts['scG2']

    # ---------------------------------------------------------------- B. constants (ground)
    def t_consts(sub):
        sub.add('const/lambda=SEC-GLV-eigenvalue', [], lam == LAMBDA)
        sub.add('const/lambda^2+lambda+1=0-mod-n', [], (lam * lam + lam + 1) % N == 0)
        sub.add('const/beta=cube-root-of-unity', [], consts['feBeta'] == BETA and (BETA ** 3) % P_FIELD == 1 and BETA != 1)
        lg = ec_mul(lam, (GX, GY))
        sub.add('const/(beta*Gx,Gy)=lambda*G', [], lg == ((BETA * GX) % P_FIELD, GY))
        sub.add('const/lattice-basis-short', [], max(abs(a1), abs(b1), abs(a2), abs(b2)) < 2 ** 129 and a1 * b2 - a2 * b1 in (N, -N),
                meta={'a1': hex(a1), 'b1': hex(b1), 'a2': hex(a2), 'b2': hex(b2)})
        # g_i = round(2^384 * b2 / n), round(2^384 * (-b1) / n)
        def rnd(num, den):
            return (2 * num + den) // (2 * den)
        sub.add('const/g1=round(2^384*b2/n)', [], g1 == rnd((2 ** 384) * b2, N), meta={'g1': hex(g1)})
        sub.add('const/g2=round(2^384*(-b1)/n)', [], g2 == rnd((2 ** 384) * (-b1), N), meta={'g2': hex(g2)})
    if not only or 'const' in only:
        tasks.append(('consts', t_consts))

    # ---------------------------------------------------------------- A. mulGFlooredDiv: exact, every k in [0,n)
    def t_mulg(gname):
        def task(sub):
            st = {}

            def h(ctx):
                m = vm(ctx)
                kl = sym_limbs('k')
                K = tm.lift(cat_limbs(kl), 256)
                ctx.assume(tm.ult(K, N, 256))
                ko = m.new_obj(None, tree=[[], list(kl)], label='k')
                g = m.load(m.global_ptr(ROOT + gname))
                gval = global_scalar(m, gname)
                recv = m.new_obj(None, tree=[[], sym_limbs('pre')], label='recv')
                r = m.call(SC + 'mulGFlooredDiv', [X.Ptr(recv, ()), X.Ptr(ko, ()), g])
                sub.note_machine(m)
                st.update(K=K, out=list(recv.tree[1]), g=gval, pc=list(ctx.pc))
                ctx.check(r.same(X.Ptr(recv, ())), 'returns-receiver')
                ctx.check(tm.eq(cat_limbs(list(ko.tree[1])), K, 256), 'bv:k-unchanged')
            sub.explore('mulG/%s' % gname, h, mode='int', timeout=300)

            def goal(L):
                Kz = L.lo(st['K'])
                Cz = sum(L.lo(tm.lift(w, 64)) * (2 ** (64 * i)) for i, w in enumerate(st['out']))
                q, r = z3.Int('spec_q'), z3.Int('spec_r')
                L.side += [Kz * st['g'] == q * 2 ** 384 + r, r >= 0, r < 2 ** 384, q >= 0]
                return z3.And(Cz == q + z3.If(r >= 2 ** 383, 1, 0), Cz < 2 ** 129)
            if st:
                sub.add('mulG/%s/value=floor(k*g/2^384)+bit383(k*g)' % gname, st['pc'], None, mode='int', int_goal=goal, timeout=300)
        return task
    if not only or 'mulg' in only:
        tasks.append(('mulg', t_mulg('scG1')))
        tasks.append(('mulg', t_mulg('scG2')))
        chk.bounds.append('mulGFlooredDiv(k, g) for g in {scG1, scG2}: every k in [0,n), exact integer semantics (rounding bit, carries across limbs)')

    # ---------------------------------------------------------------- D. splitGLV data flow
    def t_split(sub):
        def h(ctx):
            m = vm(ctx)
            fresh = []

            def c_mulg(m, a):
                i = len(fresh)
                l = sym_limbs('c%d' % (i + 1))
                fresh.append((tm.lift(cat_limbs(l), 256), a[2]))
                ctx.assume(tm.ult(fresh[-1][0], N, 256))
                m.store(X.Ptr(a[0].obj, a[0].path + (1,)), l)
                return a[0]
            m.contracts[SC + 'mulGFlooredDiv'] = c_mulg
            kl = sym_limbs('k')
            K = tm.lift(cat_limbs(kl), 256)
            ctx.assume(tm.ult(K, N, 256))
            ko = X.Ptr(m.new_obj(None, tree=[[], list(kl)], label='k'), ())
            k1, k2 = m.call(SC + 'splitGLV', [ko])
            sub.note_machine(m)
            mul = models.mulmod_uf('mul_scalar')
            from . import ring as R

            def add(a, b):
                return tm.trunc(R.spec_addmod(tm.lift(a, 256), tm.lift(b, 256), N), 256)
            ctx.check(len(fresh) == 2 and fresh[0][1].same(m.load(m.global_ptr(ROOT + 'scG1'))) and fresh[1][1].same(m.load(m.global_ptr(ROOT + 'scG2'))),
                      'c1,c2=mulGFlooredDiv(k,g1),(k,g2)')
            if len(fresh) == 2:
                c1, c2 = fresh[0][0], fresh[1][0]
                k2s = add(mul(c1, consts['scNegB1'], N), mul(c2, consts['scNegB2'], N))
                k1s = add(K, mul(k2s, consts['scNegLambda'], N))
                ctx.check(tm.eq(tm.lift(cat_limbs(list(m.load(k2)[1])), 256), k2s, 256), 'bv:k2=c1*(-b1)+c2*(-b2)')
                ctx.check(tm.eq(tm.lift(cat_limbs(list(m.load(k1)[1])), 256), k1s, 256), 'bv:k1=k+k2*(-lambda)')
                ctx.check(tm.eq(tm.lift(cat_limbs(list(m.load(ko)[1])), 256), K, 256), 'bv:k-unchanged')
        sub.explore('split/dataflow', h, mode='bv')
    if not only or 'split' in only:
        tasks.append(('split', t_split))
        chk.notes.append('k1 + k2*lambda = k (mod n) follows from split/dataflow (k1 = k - k2*lambda) for ANY c1, c2; the lattice facts are const/*')

    # ---------------------------------------------------------------- C. window bound for every scalar (LIA)
    def t_bound(sub):
        k = z3.Int('k')
        qs = []
        cs = []
        A = [k >= 0, k < N]
        for i, g in enumerate((g1, g2)):
            q, r, bit, r2 = z3.Int('q%d' % i), z3.Int('r%d' % i), z3.Int('bit%d' % i), z3.Int('rr%d' % i)
            # k*g = q*2^384 + r, r = bit*2^383 + r2
            A += [k * g == q * 2 ** 384 + r, r >= 0, r < 2 ** 384, r == bit * 2 ** 383 + r2, bit >= 0, bit <= 1, r2 >= 0, r2 < 2 ** 383]
            cs.append(q + bit)
        c1, c2 = cs
        k1 = k - c1 * a1 - c2 * a2
        k2 = -c1 * b1 - c2 * b2
        B = 2 ** 128
        sub.add('bound/|k1|,|k2|<2^128-for-every-k', A, z3.And(k1 < B, k1 > -B, k2 < B, k2 > -B), mode='z3', timeout=300)
        sub.add('bound/witness-2^127-is-exceeded', A, z3.And(k1 < B // 2, k1 > -B // 2, k2 < B // 2, k2 > -B // 2), mode='z3', timeout=300, expect='sat')
        sub.notes.append('with C02 (half-order test exact) the normalised halves are |k1|, |k2| < 2^128 < n/2, i.e. bytes 0..15 of both are zero for every s')
    if not only or 'bound' in only:
        tasks.append(('bound', t_bound))
        chk.bounds.append('GLV window bound: every k in [0,n) (one LIA query; 2^127 is shown to be exceeded, so the 16-byte window is tight)')

    # ---------------------------------------------------------------- E/F. table construction and lookups (abstract group)
    def gm(ctx):
        m = vm(ctx)
        GA.install(m, endo={'P': 'Pbeta'})
        return m

    def t_table(sub):
        def h(ctx):
            m = gm(ctx)
            p = m.grp_new(GA.base('P'))
            tbl = m.call(ROOT + 'newProjectivePointMultTable', [p])
            sub.note_machine(m)
            ok = True
            for i in range(15):
                e = tbl[i].v
                ok = ok and e is not GA.INVALID and set(e.c) <= {'P'} and z3.is_true(z3.simplify(e.coeff('P') == i + 1))
            ctx.check(ok, 'tbl[i]=(i+1)*P')
        sub.explore('table/newProjectivePointMultTable', h)

        def h0(ctx):
            m = gm(ctx)
            zero = X.Ptr(m.new_obj(prog.tid_by_str[MOD + '.Point'], label='zero'), ())
            try:
                m.call(ROOT + 'newProjectivePointMultTable', [zero])
            except X.GoPanic:
                return
            ctx.check(False, 'uninitialised-point-must-panic')
        sub.explore('table/uninitialised-operand', h0, allow_panic=lambda p: True)
    if not only or 'table' in only:
        tasks.append(('table', t_table))

    def mk_table(m, basename='T'):
        tid = prog.tid_by_str[MOD + '.projectivePointMultTable']
        tree = [X.Abs('grp', GA.base(basename).scale(i + 1)) for i in range(15)]
        return X.Ptr(m.new_obj(tid, tree=tree, label='tbl'), ())

    def t_lookup(fn):
        def task(sub):
            def h(ctx):
                m = gm(ctx)
                tbl = mk_table(m)
                idx = tm.var('idx', 64)
                ctx.assume(tm.ule(idx, 15, 64))
                s0 = z3.Int('s0')
                s = m.grp_new(GA.Lin({'S': z3.IntVal(1), 'T': s0}))
                r = m.call(TBL + fn, [tbl, s, idx])
                sub.note_machine(m)
                got = m.grp_get(s)
                I = z3.BV2Int(m.bvlow.lo(idx))
                pc = [m.bvlow.lo(c) for c in ctx.pc if isinstance(c, tm.T)]
                ctx.check(r.same(s), 'returns-sum')
                res = (pc, z3.And(got.coeff('T') == s0 + I, got.coeff('S') == 1))
                ctx.z3obl = getattr(ctx, 'z3obl', []) + [res]
                return res
            paths = sub.explore('lookup/%s' % fn, h, mode='bv')
            for i, p in enumerate(paths):
                if p.outcome == 'ok' and p.value:
                    sub.add('lookup/%s/sum\'=sum+idx*P#p%d' % (fn, i), p.value[0], p.value[1], mode='z3', timeout=120)
        return task
    if not only or 'lookup' in only:
        tasks.append(('lookup', t_lookup('SelectAndAdd')))
        tasks.append(('lookup', t_lookup('SelectAndAddVartime')))
        chk.bounds.append('SelectAndAdd / SelectAndAddVartime (portable lookup; SSE2 via C19): all idx in [0,15], table tbl[i] = (i+1)*T')

    # ---------------------------------------------------------------- G. the ladders
    def strip_zext(t):
        while isinstance(t, tm.T) and t.op == 'zext':
            t = t.args[0]
        return t

    def install_cuts(m, ctx, log):
        """lookups replaced by their closed form (discharged by lookup/*); splitGLV by fresh halves; a conditionally
        negated point becomes a fresh base symbol (its definition is recorded), so that ladder coefficients stay linear"""
        def closed(fn):
            def c(m, a):
                tbl = m.load(a[0])
                b0 = tbl[0].v
                for i in range(15):
                    e = tbl[i].v
                    if e is GA.INVALID or b0 is GA.INVALID or not z3.is_true(z3.simplify(z3.And([e.coeff(k) == b0.coeff(k) * (i + 1) for k in set(e.c) | set(b0.c)]))):
                        ctx.check(False, 'lookup-table-holds-(i+1)*P-at-%s (table entry %d is %s)' % (fn, i, 'uninitialised' if e is GA.INVALID else 'wrong'))
                        if b0 is GA.INVALID:
                            b0 = GA.ZERO
                        break
                idx = a[2]
                if isinstance(idx, tm.T) and idx.ub > 15:
                    ctx.check(tm.ule(idx, 15, 64), 'bv:lookup-index-in-[0,15]')
                core = strip_zext(idx)
                I = z3.BV2Int(m.bvlow.lo(core)) if isinstance(core, tm.T) else z3.IntVal(core)
                log.setdefault('idx', []).append(idx)
                return m.grp_put(a[1], m.grp_raw(a[1]) + b0.scale(I))
            return c
        m.contracts[TBL + 'SelectAndAdd'] = closed('SelectAndAdd')
        m.contracts[TBL + 'SelectAndAddVartime'] = closed('SelectAndAddVartime')

        def c_split(m, a):
            out = []
            for nm in ('k1', 'k2'):
                l = sym_limbs(nm)
                ctx.assume(tm.ult(tm.lift(cat_limbs(l), 256), N, 256))
                out.append(X.Ptr(m.new_obj(None, tree=[[], list(l)], label=nm), ()))
            log['halves'] = out
            return tuple(out)
        m.contracts[SC + 'splitGLV'] = c_split

        def c_condneg(m, a):
            p = m.grp_get(a[1])
            if len(p.c) != 1 or not z3.is_true(z3.simplify(list(p.c.values())[0] == 1)):
                raise X.Unsupported("ConditionalNegate of a non-base point in the ladder harness")
            b = list(p.c)[0]
            nb = b + '~'
            log.setdefault('condneg', {})[nb] = (b, a[2])
            return m.grp_put(a[0], GA.base(nb))
        m.contracts[PT + 'ConditionalNegate'] = c_condneg

    def nb_of(b):
        return b + '~'

    def t_ladder(fn, alias):
        def task(sub):
            def h(ctx):
                log = {}
                m = gm(ctx)
                install_cuts(m, ctx, log)
                m.grp_root = lambda b: 'P' if b.rstrip('~') in ('P', 'Pbeta') else b   # -P, lambda*P are the point at infinity iff P is
                m.unwind = 40
                p = m.grp_new(GA.base('P'))
                v = p if alias else m.grp_new(GA.INVALID)
                s = X.Ptr(m.new_obj(None, tree=[[], sym_limbs('s')], label='s'), ())
                r = m.call(PT + fn, [v, s, p])
                sub.note_machine(m)
                got = m.grp_get(v)
                k1 = tm.lift(cat_limbs(sym_limbs('k1')), 256)
                k2 = tm.lift(cat_limbs(sym_limbs('k2')), 256)
                half = (N - 1) // 2
                low = m.bvlow
                ctx.check(r.same(v), 'returns-receiver')
                if not alias:
                    ctx.check(z3.is_true(z3.simplify(m.grp_get(p).coeff('P') == 1)) and set(m.grp_get(p).c) == {'P'}, 'operand-unchanged')
                outs = []
                used = set()
                pc = [low.lo(c) for c in ctx.pc if isinstance(c, tm.T)]
                if 'halves' not in log:
                    # a path that never split the scalar (e.g. a short-scalar fast path): the windows must then spell s itself
                    S = tm.lift(cat_limbs(sym_limbs('s')), 256)
                    full = sum(z3.BV2Int(low.lo(tm.extract(S, 4 * j + 3, 4 * j))) * (16 ** j) for j in range(64))
                    return (pc, z3.And([GA.eq_coeff(m, got, 'P', full)] + [GA.eq_coeff(m, got, k, 0) for k in got.c if k != 'P']), 'direct')
                ctx.check(len(log.get('idx', [])) == 64, '64-window-lookups')
                for kk, hobj, b in ((k1, log['halves'][0], 'P'), (k2, log['halves'][1], 'Pbeta')):
                    neg = tm.ult(half, kk, 256)
                    kn_spec = tm.ite(neg, tm.bv('sub', N, kk, 256), kk, 256)
                    kn_code = tm.lift(cat_limbs(list(m.load(hobj)[1])), 256)        # the half as the code normalised it
                    ctx.check(tm.eq(kn_code, kn_spec, 256), 'bv:half-normalised-to-min(k,n-k)')
                    lo16 = sum(z3.BV2Int(low.lo(tm.extract(kn_code, 4 * j + 3, 4 * j))) * (16 ** j) if isinstance(tm.extract(kn_code, 4 * j + 3, 4 * j), tm.T)
                               else z3.IntVal(tm.extract(kn_code, 4 * j + 3, 4 * j) * 16 ** j) for j in range(32))
                    if nb_of(b) in log.get('condneg', {}):
                        nb = nb_of(b)
                        base0, ctrl = log['condneg'][nb]
                        ctx.check(base0 == b and tm.eq(tm.eq(ctrl, 0, 64), tm.bnot(neg), 0), 'bv:point-negated-iff-half>(n-1)/2')
                        outs.append(GA.eq_coeff(m, got, nb, lo16))
                        used.add(nb)
                    else:
                        # explicit branches: on this path `neg` is decided by the path condition
                        sign = z3.If(low.lo(neg), -1, 1) if isinstance(neg, tm.T) else z3.IntVal(-1 if neg else 1)
                        outs.append(GA.eq_coeff(m, got, b, sign * lo16))
                        used.add(b)
                return (pc, z3.And(outs + [GA.eq_coeff(m, got, k, 0) for k in got.c if k not in used]), 'split')
            lbl = 'ladder/%s[%s]' % (fn, 'v=p' if alias else 'v|p')
            paths = sub.explore(lbl, h, mode='bv')
            for i, p in enumerate(paths):
                if p.outcome == 'ok' and p.value:
                    sub.add('%s/v=(+-)low128(|k1|)*P+(+-)low128(|k2|)*lambda*P#p%d' % (lbl, i), p.value[0], p.value[1], mode='z3', timeout=300)
            oks = [p for p in paths if p.outcome == 'ok']
            sub.add(lbl + '/witness-paths', [], len(oks) >= 1 and all(p.value for p in oks))
        return task
    if not only or 'ladder' in only:
        for fn in ('ScalarMult', 'scalarMultVartimeGLV'):
            for alias in (False, True):
                tasks.append(('ladder', t_ladder(fn, alias)))
        chk.bounds.append('ScalarMult / scalarMultVartimeGLV: all 2^512 values of the two split halves (64 symbolic nibbles), all four sign combinations, receiver distinct from / aliasing P; '
                          '16 ladder iterations unrolled with an unwinding assertion; P an arbitrary group element (identity included)')
        chk.notes.append('composition: ladder/* gives v = (s1*|k1| + s2*|k2|*lambda) P restricted to the low 16 bytes; bound/* shows the high 16 bytes are zero; '
                         'split/dataflow + const/* give k1 + k2*lambda = s (mod n); hence v = s*P')

    # ---------------------------------------------------------------- 7. end to end at coordinate level on a toy curve
    # The abstract-group runs above decide the window / sign / table logic for every scalar, but a Point has no coordinates there: code that
    # looks at x, y, z inside the multiplication routines or the table builder (a shortcut on Z, an inline normalisation, a hand-written
    # copy) has no image.  Here ScalarMult / scalarMultVartimeGLV run end to end on F_43 coordinates -- real point formulas, table
    # construction, lookups, sign handling, mulBeta with the toy image of beta -- with the split cut at its (separately decided) contract:
    # splitGLV returns the two halves the harness chooses, each +-(a 128-bit magnitude).
    def t_coord(fn, mode, variant, seed=0):
        from . import toy as T, toycoord as TC
        import random
        toy = T.get_toy(43, 31)
        WT = T.W

        def task(sub):
            def h(ctx):
                m, alg = TC.machine(prog, ctx, gl, toy)
                lam_toy = TC.install_endomorphism(m, toy)
                m.unwind = 40
                rng = random.Random(seed)
                halves = []
                kP, lP = variant['kP'], variant['lamP']
                if mode == 'short':
                    # short halves: one half is a symbolic nibble (the last window) with a fixed sign, the other half is zero
                    mags = [TC.windowed_scalar('m%d' % i, {0} if i == variant['half'] else set(), 4, rng, nwin=64, tail=0, zero_frac=1.0) for i in range(2)]
                else:
                    mags = [TC.windowed_scalar('m%d' % i, set(variant['sym'][i]), 4, rng, nwin=64, tail=1, zero_frac=0.3,
                                               fix=lambda j, v: 0 if j >= 32 else v) for i in range(2)]
                negs = variant['negs'] if 'negs' in variant else [tm.boolvar('neg1'), tm.boolvar('neg2')]
                for i in range(2):
                    if negs[i] is True or variant.get('split_windows'):
                        # n - magnitude feeds 256-bit compare / subtract results into every lookup index and select: the window values are
                        # case-split by the path solver (one path per value) instead of being carried symbolically through that arithmetic
                        wins = [ctx.concretize(w, 4, 'window') if isinstance(w, tm.T) else w for w in mags[i][1]]
                        mags[i] = (TC.limbs_of_windows(wins, 4), wins)

                def c_split(mm, a):
                    out = []
                    for i in range(2):
                        mag = tm.lift(cat_limbs(mags[i][0]), 256)
                        # a negative half is n - magnitude (magnitude 0 has no negative form)
                        ctx.assume(tm.implies(negs[i], tm.bnot(tm.eq(mag, 0, 256))))
                        val = tm.ite(negs[i], tm.bv('sub', N, mag, 256), mag, 256)
                        out.append(TC.new_scalar(mm, [tm.extract(val, 64 * j + 63, 64 * j) if isinstance(val, tm.T) else (val >> (64 * j)) & (2 ** 64 - 1) for j in range(4)]))
                    halves.append(out)
                    return tuple(out)
                m.contracts[SC + 'splitGLV'] = c_split
                p = X.Ptr(TC.point(m, alg, toy, 'P', kP, lP), ())
                if variant.get('alias'):
                    v = p
                elif variant.get('prior') == 'fresh':
                    v = X.Ptr(m.new_obj(prog.tid_by_str[MOD + '.Point'], label='v (zero value)'), ())
                else:
                    k0, l0 = tm.var('k0', WT), tm.var('lam0', WT)
                    ctx.assume(tm.ult(k0, toy.n, WT))
                    ctx.assume(tm.band(tm.bnot(tm.eq(l0, 0, WT)), tm.ult(l0, toy.p, WT)))
                    v = X.Ptr(TC.point(m, alg, toy, 'v', k0, l0, extra='any'), ())
                # the scalar itself is only handed to splitGLV (cut above): its limbs are an opaque leaf, so code that reads the scalar
                # directly (a fast path that bypasses the split) leaves this layer at once instead of being explored over 2^256 values;
                # such paths are the abstract-group layer's (ladder/*: 'direct' paths)
                class OpaqueLimbs(list):
                    def _no(self, *a):
                        raise X.AbstractionBreach('the scalar is read directly (not through splitGLV) inside the coordinate-level layer')
                    __iter__ = __getitem__ = __len__ = _no
                s = X.Ptr(m.new_obj(None, tree=[[], OpaqueLimbs()], label='Scalar s (opaque)'), ())
                r = m.call(PT + fn, [v, s, p])
                sub.note_machine(m)
                ctx.check(len(halves) == 1, 'scalar-split-exactly-once')
                e = []
                for i in range(2):
                    mi = TC.window_sum_mod(toy, mags[i][1], 4)
                    if isinstance(negs[i], tm.T):
                        e.append(tm.ite(negs[i], toy.negn(mi), mi, WT))
                    else:
                        e.append(toy.negn(mi) if negs[i] else mi)
                coeff = toy.addn(e[0], toy.muln(e[1], lam_toy))
                want = toy.muln(coeff, kP)
                valid, k = TC.index_of(alg, toy, v.obj)
                ctx.check(r.same(v), 'returns-receiver')
                ctx.check(tm.eq(point_get(prog, v.obj, 'isValid'), True, 0), 'result-flagged-valid')
                ctx.check(valid, 'bv:result-is-a-valid-projective-point')
                ctx.check(tm.eq(k, want, WT), "bv:result=(+-m1 +- m2*lambda)*P")
                if not variant.get('alias'):
                    _, kp_after = TC.index_of(alg, toy, p.obj)
                    ctx.check(tm.eq(kp_after, kP, WT), 'bv:operand-unchanged')
                if mode == 'short':
                    ub = m.slice_elems(m.call(PT + 'UncompressedBytes', [v]))
                    if ctx.branch(tm.eq(want, 0, WT)) if isinstance(want, tm.T) else (want == 0):
                        ctx.check(len(ub) == 1 and tm.eq(ub[0], 0, 8), 'bv:result-encodes-as-the-identity')
                    else:
                        exp = [4] + T.be32(toy.X(want)) + T.be32(toy.Y(want))
                        ctx.check(len(ub) == 65 and tm.eq(cat_bytes(ub), cat_bytes(exp), 520), 'bv:UncompressedBytes(result)=encoding-of-the-product')
                return 'ok'
            lbl = 'coord/F_43/%s[%s]' % (fn, variant['label'])
            paths = sub.explore(lbl, h, mode='bv', timeout=600, max_paths=400)
            sub.add(lbl + '/witness', [], any(p.outcome == 'ok' for p in paths))
        return task
    if not only or 'coord' in only:
        lams = (1, 7, 12, 40)
        for fn in ('ScalarMult', 'scalarMultVartimeGLV'):
            # (a) every group element as P (identity included), short halves
            for kP in range(31):
                kinds = ('any', 'alias', 'fresh') if (chk.thorough or kP in (0, 1)) else (('any', 'alias', 'fresh')[kP % 3],)
                for kind in kinds:
                    for lP in ((lams[kP % 4], lams[(kP + 2) % 4]) if chk.thorough else (lams[(kP + len(kind)) % 4],)):
                        for half in (0, 1):
                            for neg in (False, True):
                                tasks.append(('coord', t_coord(fn, 'short', {
                                    'label': 'P=%dG lam=%d, half %d = %snibble, other half 0, %s' % (kP, lP, half + 1, '-' if neg else '+', {'any': 'receiver any', 'alias': 'v=p', 'fresh': 'receiver fresh'}[kind]),
                                    'kP': kP, 'lamP': lP, 'alias': kind == 'alias', 'prior': kind, 'half': half, 'negs': [neg and half == 0, neg and half == 1]})))
            # (b) longer halves: symbolic nibbles in the last windows, concrete (seeded) nibbles above them
            if chk.thorough:
                grid = [(1, 1, ((0,), (1,)), 1), (5, 17, ((0, 1), ()), 2), (30, 3, ((), (0, 1)), 3), (0, 9, ((1,), (0,)), 4)]
                grid += [(k, l, ((a,), (b,)), 10 + a) for (k, l, a, b) in ((7, 2, 0, 0), (12, 40, 2, 1), (19, 11, 1, 2), (23, 42, 2, 2), (2, 21, 1, 1))]
                signsets = ((False, False), (True, False), (False, True), (True, True))
            else:
                # quick tier: one symbolic nibble per instance (two fully symbolic nibbles cost 30..50 s per obligation)
                grid = [(1, 1, ((1,), ()), 1), (5, 17, ((), (2,)), 2), (30, 3, ((0,), ()), 3), (0, 9, ((), (1,)), 4)]
                signsets = None
            for kP, lP, sym, seed in grid:
                for alias in (False, True):
                    for negs in (signsets or ((False, False), (True, True) if alias else ((bool(sym[1]), bool(sym[0]))))):
                        tasks.append(('coord', t_coord(fn, 'long', {'label': 'P=%dG lam=%d, sym nibbles %s|%s, signs %s%s, seed %d, %s' % (
                            kP, lP, list(sym[0]), list(sym[1]), '-' if negs[0] else '+', '-' if negs[1] else '+', seed, 'v=p' if alias else 'receiver any'),
                            'kP': kP, 'lamP': lP, 'sym': sym, 'alias': alias, 'prior': 'any', 'negs': list(negs)}, seed=seed + chk.seed)))
        from . import toycoord as TC
        chk.summaries.update(TC.SUMMARY)
        chk.breach_fallback = dict(getattr(chk, 'breach_fallback', None) or {})
        # ... and the other way round: a path of the multiplication that bypasses the split (reads the scalar directly) leaves the coordinate
        # layer, whose scalar is opaque; such paths are decided by the abstract-group layer ('direct' paths of ladder/*).  main() refuses to
        # let both layers of the same run step aside.
        chk.breach_fallback['coord'] = ('breach-only', "the abstract-group tasks ladder/* ('direct' paths: windows must spell the scalar itself), all scalars")
        chk.breach_fallback.update({'ladder': 'the coordinate-level tasks coord/F_43/* (toy curve; every group element with one nibble per half, listed P with 1..2 symbolic nibbles per half)',
                                    'table': 'the coordinate-level tasks coord/F_43/* (toy curve)'})
        chk.bounds.append('coordinate level, toy curve y^2=x^3+7 over F_43 (order 31) with the toy image of the endomorphism: ScalarMult / scalarMultVartimeGLV executed end to end '
                          '(real formulas, table builder, lookups, sign handling); (a) every group element as P (identity included; representation scale from {1,7,12,40}), halves +-w1, +-w2 with '
                          'w1, w2 any nibble, receiver fresh / any valid point with arbitrary bookkeeping / aliasing P, result also through UncompressedBytes; (b) listed P, 128-bit '
                          'magnitudes with 1..2 symbolic nibbles per half in the last three windows and the other nibbles concrete (seeded), all four sign combinations')
        chk.outside.append('coordinate level: halves with more than 2 simultaneously symbolic nibbles or symbolic nibbles above the third window; representation scales other than the listed ones')

    return tasks


if __name__ == '__main__':
    from .common import run_main
    run_main(main)
