"""C13 BIP-340 verification accepts exactly what the BIP-340 algorithm accepts."""
import os
from .common import Check, load_prog, load_globals, new_machine, tm, X, MOD, sym_bytes, cat_bytes, P_FIELD, N_ORDER, cat_limbs
from .schnorr_common import snapshot, unchanged
from . import stubs, toy as T, models
from .c07 import TOYS_QUICK, TOYS_THOROUGH
from .schnorr_common import BTC, W, tagged, int16_of, spec_verify, spec_lift_x

SPK = '(*' + MOD + '/secec/bitcoin.SchnorrPublicKey).'
SPUB_T = MOD + '/secec/bitcoin.SchnorrPublicKey'


def main():
    chk = Check('C13')
    only = os.environ.get('VERIF_ONLY', '')
    tasks = build(chk, only)
    # contracts this check's toy layer uses for routines named in the property's own file list: re-decided here (see common.include_dependency)
    from .common import include_dependency
    if not only or 'dep' in only:
        include_dependency(chk, tasks, 'C04', 'consts mulg split bound table lookup ladder', 'BIP-340 verification computes -e*P with the variable-time GLV multiply (toy layer: contract)')
        include_dependency(chk, tasks, 'C05', 'table lookup basemult', 'BIP-340 verification computes s*G with scalarBaseMultVartime (toy layer: contract)')
        include_dependency(chk, tasks, 'C16', 'dsm', 'BIP-340 verification calls DoubleScalarMultBasepointVartime (toy layer: contract)')
    from .common import include_ring_dependency
    include_ring_dependency(chk, tasks, 'C01', 'field', ['field_sqrt'], 'lift_x solves y^2 = x^3 + 7 with Element.Sqrt (contract: root iff square, zero otherwise); the real code is re-decided here')
    chk.run_tasks(tasks)
    chk.discharge()
    chk.finish()


def build(chk, only=''):
    prog = load_prog()
    gl = load_globals(prog)
    chk.summaries.update(T.CONTRACT_SUMMARY)
    chk.stubs += stubs.STUB_NOTES
    toys = TOYS_THOROUGH if chk.thorough else TOYS_QUICK
    tasks = []

    def mk(ctx, toy):
        m = new_machine(prog, ctx, gl, value_model=True)
        T.install(m, toy)
        stubs.install_hash_stubs(m)
        return m

    # ---- tagged hash structure, every message length (full-width hash symbols)
    maxlen = 400 if chk.thorough else 320

    def t_tagged(L0, L1):
        def task(sub):
            for L in range(L0, L1):
                def h(ctx, L=L):
                    stubs.NARROW['on'] = False
                    m = new_machine(prog, ctx, gl, value_model=True)
                    stubs.install_hash_stubs(m)
                    r, pk, msg = sym_bytes('r', 32), sym_bytes('pk', 32), sym_bytes('m', L)
                    vals = [m.new_byte_slice(r, 'r'), m.new_byte_slice(pk, 'pk'), m.new_byte_slice(msg, 'm')]
                    arr = m.new_obj(None, tree=vals, label='vals')
                    out = m.call(BTC + 'schnorrTaggedHash', ['BIP0340/challenge', X.Slice(arr, (), 0, 3, 3)])
                    sub.note_machine(m)
                    ob = m.slice_elems(out)
                    ctx.check(len(ob) == 32 and tm.eq(cat_bytes(ob), cat_bytes(tagged('BIP0340/challenge', [r, pk, msg])), 256),
                              'bv:SHA256(SHA256(tag)||SHA256(tag)||r||pk||m)')
                    # the inputs are not modified
                    ctx.check(tm.eq(cat_bytes(m.slice_elems(vals[2])), cat_bytes(msg), 8 * L) if L else True, 'bv:message-unchanged')
                sub.explore('taggedhash/challenge@msglen%d' % L, h, mode='bv')
        return task
    if not only or 'tagged' in only:
        step = 20
        for L0 in range(0, maxlen + 1, step):
            tasks.append(('tagged', t_tagged(L0, min(L0 + step, maxlen + 1))))
        chk.bounds.append('schnorrTaggedHash (challenge layout r||pk||m): every message length 0..%d, all contents' % maxlen)
        chk.outside.append('messages longer than %d bytes' % maxlen)

    # ---- public key import: accepts exactly x < p on the curve (toy), every length
    def t_import(toy, L):
        def task(sub):
            def h(ctx):
                stubs.NARROW['on'] = True
                m = mk(ctx, toy)
                x16 = tm.var('x16', W)
                key = T.be32(x16) if L == 32 else sym_bytes('K', L)
                key_s = m.new_byte_slice(key, 'key')
                k, err = m.call(BTC + 'NewSchnorrPublicKey', [key_s])
                sub.note_machine(m)
                ok, kP = spec_lift_x(toy, x16) if L == 32 else (False, 0)
                if err is None:
                    ctx.check(ok, 'bv:accepted-implies-x<p-and-on-curve')
                    from .c20 import reachable
                    ctx.check(key_s.obj.id not in reachable(k), 'key-does-not-alias-the-callers-buffer (pk bytes hashed into the challenge stay those of the lifted point)')
                    ctx.check(tm.eq(m.toy_pget(T.fld(m, k, SPUB_T, 'point')), kP, W), 'bv:point=lift_x(x)-with-even-y')
                    ctx.check(tm.eq(cat_bytes(m.slice_elems(T.fld(m, k, SPUB_T, 'xBytes'))), cat_bytes(key), 256), 'bv:xBytes=key')
                    return 'ok'
                ctx.check(tm.bnot(ok), 'bv:rejected-implies-invalid')
                ctx.check(k.is_nil(), 'no-key-on-error')
                return 'err'
            paths = sub.explore('toy(%d,%d)/NewSchnorrPublicKey@len%d' % (toy.p, toy.n, L), h, mode='bv')
            sub.add('toy(%d,%d)/NewSchnorrPublicKey@len%d/witness' % (toy.p, toy.n, L), [], ('ok' in {p.value for p in paths}) == (L == 32))
        return task
    if not only or 'import' in only:
        toy = T.get_toy(*toys[0])
        for L in range(0, 41):
            tasks.append(('import', t_import(toy, L)))
        chk.bounds.append('NewSchnorrPublicKey: every length 0..40; x arbitrary 16-bit (>= p\', off-curve included); toy curve %s' % (toys[0],))

    # ---- Verify: toy semantics
    def t_verify(toy, ML, SL):
        def task(sub):
            def h(ctx):
                stubs.NARROW['on'] = True
                m = mk(ctx, toy)
                pk16 = tm.var('pk16', W)
                okp, kP = spec_lift_x(toy, pk16)
                ctx.assume(okp)  # key objects only exist for importable keys (import is checked above)
                pkb = T.be32(pk16)
                pub, perr = m.call(BTC + 'NewSchnorrPublicKey', [m.new_byte_slice(pkb, 'key')])   # real constructor
                if perr is not None:
                    raise X.Infeasible()
                msg = sym_bytes('m', ML)
                r16, s16 = tm.var('r16', W), tm.var('s16', W)
                sig = (T.be32(r16) + T.be32(s16) + sym_bytes('extra', max(0, SL - 64)))[:SL]
                msl, ssl = m.new_byte_slice(msg, 'msg'), m.new_byte_slice(sig, 'sig')
                snap = snapshot(m, [pub, msl, ssl])
                res = m.call(SPK + 'Verify', [pub, msl, ssl])
                sub.note_machine(m)
                # verification is a read-only use of the key (and of the caller's buffers): a key that verified once verifies the same way again
                ctx.check(unchanged(m, snap), 'bv:key-object-and-caller-buffers-unchanged-by-verification')
                spec = spec_verify(toy, pk16, msg, r16, s16) if SL == 64 else False
                ctx.check(tm.eq(res, spec, 0), 'bv:Verify-accepts-iff-BIP340-Verify')
                # a result the code left symbolic (e.g. `return a == 0 && bytes.Equal(..)`) is split so that the witness below is semantic
                return ctx.branch(res) if isinstance(res, tm.T) else bool(res)
            paths = sub.explore('toy(%d,%d)/Verify@msglen%d@siglen%d' % (toy.p, toy.n, ML, SL), h, mode='bv', timeout=300)
            if SL == 64:
                sub.add('toy(%d,%d)/Verify@msglen%d/witness' % (toy.p, toy.n, ML), [], {p.value for p in paths} >= {True, False})
        return task
    if not only or 'verify' in only:
        for (p, n) in toys:
            toy = T.get_toy(p, n)
            for ML in (0, 1, 32, 33):
                tasks.append(('verify', t_verify(toy, ML, 64)))
        toy = T.get_toy(*toys[0])
        for SL in list(range(0, 64)) + list(range(65, 71)):
            tasks.append(('verify-len', t_verify(toy, 32, SL)))
        chk.bounds.append('SchnorrPublicKey.Verify: toy curves %s; all importable keys, all (r,s) 16-bit (r >= p\', s >= n\', s = 0 included), message lengths {0,1,32,33}, '
                          'signature lengths 0..70; the challenge is an uninterpreted function of exactly r||pk||m' % toys)

    # ---- exact, full width: range checks of parseSchnorrSignature
    def t_parse_full(sub):
        def h(ctx):
            stubs.NARROW['on'] = False
            m = new_machine(prog, ctx, gl, value_model=True)
            models.install_value_model(m, mul='uf')
            stubs.install_hash_stubs(m)
            sig = sym_bytes('sig', 64)
            pk, msg = sym_bytes('pk', 32), sym_bytes('m', 32)
            ok, s, e, rx = m.call(BTC + 'parseSchnorrSignature', [m.new_byte_slice(pk, 'pk'), m.new_byte_slice(msg, 'm'), m.new_byte_slice(sig, 'sig')])
            sub.note_machine(m)
            r = tm.lift(cat_bytes(sig[:32]), 256)
            sv = tm.lift(cat_bytes(sig[32:]), 256)
            spec = tm.band(tm.ult(r, P_FIELD, 256), tm.ult(sv, N_ORDER, 256))
            ctx.check(tm.eq(ok, spec, 0), 'bv:parse-ok-iff-r<p-and-s<n')
            if isinstance(ok, tm.T):
                ok = ctx.branch(ok)
            if ok:
                ctx.check(tm.eq(tm.lift(cat_limbs(list(m.load(s)[1])), 256), sv, 256), 'bv:s-value')
                E = tm.lift(cat_bytes(tagged('BIP0340/challenge', [sig[:32], pk, msg])), 256)
                red = tm.ite(tm.ule(N_ORDER, E, 256), tm.bv('sub', E, N_ORDER, 256), E, 256)
                ctx.check(tm.eq(tm.lift(cat_limbs(list(m.load(e)[1])), 256), red, 256), 'bv:e=int(tagged-hash(r||pk||m))-mod-n')
            return bool(ok)
        paths = sub.explore('exact/parseSchnorrSignature', h, mode='bv')
        sub.add('exact/parseSchnorrSignature/witness', [], {p.value for p in paths} >= {True, False})
    if not only or 'parse' in only:
        tasks.append(('parse-full', t_parse_full))
        chk.bounds.append('parseSchnorrSignature at full width: all 64-byte signatures (r in [p,2^256), s in [n,2^256) included)')

    return tasks


if __name__ == '__main__':
    from .common import run_main
    run_main(main)
