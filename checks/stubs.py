"""Environment stubs: hash functions as uninterpreted functions of the exact byte string written,
scripted io.Readers, crypto/rand, crypto.Hash.  Every stub is listed in the evidence of the check that
installs it."""
from .common import tm, X, cat_bytes, make_error
from engine.builtins_go import _elem_ptr, concretize_slice


def bytes_of_term(t, n):
    """split an 8n-bit term into n byte terms (big-endian)"""
    if isinstance(t, tm.T):
        return [tm.extract(t, 8 * (n - 1 - i) + 7, 8 * (n - 1 - i)) for i in range(n)]
    return [(t >> (8 * (n - 1 - i))) & 0xff for i in range(n)]


def go_append_bytes(m, s, vals):
    """Go append(s, vals...) for byte slices with exact aliasing semantics"""
    if s is None:
        s = X.NILSLICE
    s = concretize_slice(m, s)
    if not vals:
        return s
    sl, sc = (s.len, s.cap) if s.obj is not None else (0, 0)
    need = sl + len(vals)
    if s.obj is not None and need <= sc:
        r = X.Slice(s.obj, s.path, s.off, need, sc)
        for i, v in enumerate(vals):
            m.store(_elem_ptr(r, sl + i), v)
        return r
    old = m.slice_elems(s) if s.obj is not None else []
    newcap = max(need, 2 * sc)
    o = m.new_obj(None, tree=list(old) + list(vals) + [0] * (newcap - need), label='append(stub)')
    return X.Slice(o, (), 0, need, newcap)


NARROW = {'on': False}


def H(name, parts, outlen=32):
    """uninterpreted hash of the concatenation of byte lists `parts` (named per total length).
    In the toy interpretation (NARROW) the digest is a 16-bit uninterpreted value zero-extended to outlen bytes, so
    that "int(hash) mod n'" stays a narrow term (the full-width reduction is discharged separately)."""
    data = [b for p in parts for b in p]
    n = len(data)
    if NARROW['on']:
        if n == 0:
            t = tm.uf('%s16_len0' % name, [], 16)
        else:
            t = tm.uf('%s16_len%d' % (name, n), [tm.lift(cat_bytes(data), 8 * n)], 16)
        return [0] * (outlen - 2) + bytes_of_term(t, 2)
    if n == 0:
        t = tm.uf('%s_len0' % name, [], 8 * outlen)
    else:
        t = tm.uf('%s_len%d' % (name, n), [tm.lift(cat_bytes(data), 8 * n)], 8 * outlen)
    return bytes_of_term(t, outlen)


class HashObj:
    """hash.Hash stub: accumulates what is written; Sum appends H(everything written)"""

    def __init__(self, name, prefix_parts=(), log=None, outlen=32):
        self.name = name
        self.data = [b for p in prefix_parts for b in p]
        self.log = log
        self.outlen = outlen

    def go_has(self, mn):
        return mn in ('Write', 'Sum', 'Reset', 'Size', 'BlockSize')

    def go_invoke(self, m, mn, args):
        if mn == 'Write':
            el = m.slice_elems(args[0])
            self.data += el
            if self.log is not None:
                self.log.append(('write', self.name, len(el)))
            return (len(el), None)
        if mn == 'Sum':
            d = H(self.name, [self.data], self.outlen)
            return go_append_bytes(m, args[0], d)
        if mn == 'Reset':
            self.data = []
            return None
        if mn == 'Size':
            return self.outlen
        if mn == 'BlockSize':
            return 64
        raise X.Unsupported("hash stub method " + mn)


def install_hash_stubs(m, log=None):
    """sha256.New / sha256.Sum256 / hmac.New(sha256.New, key) / tuplehash.NewTupleHashXOF128"""
    C = m.contracts
    C['crypto/sha256.New'] = lambda m, a: X.Iface('stub.sha256', HashObj('sha256', log=log))

    def sum256(m, a):
        return list(H('sha256', [m.slice_elems(a[0])]))
    C['crypto/sha256.Sum256'] = sum256

    def hmac_new(m, a):
        key = m.slice_elems(a[1])
        o = HashObj('hmac_sha256_key%d' % len(key), prefix_parts=[key], log=log)
        o.keylen = len(key)
        return X.Iface('stub.hmac', o)
    C['crypto/hmac.New'] = hmac_new

    def th_new(m, a):
        cust = m.slice_elems(a[0])
        return X.Ptr(m.new_obj(None, tree=[TupleHashXOF(cust, log)], label='tuplehash'), ())
    C['gitlab.com/yawning/tuplehash.NewTupleHashXOF128'] = th_new

    def th_write(m, a):
        th = m.load(a[0])[0]
        return th.go_invoke(m, 'Write', a[1:])

    def th_read(m, a):
        th = m.load(a[0])[0]
        return th.go_invoke(m, 'Read', a[1:])
    C['(*gitlab.com/yawning/tuplehash.Hasher).Write'] = th_write
    C['(*gitlab.com/yawning/tuplehash.Hasher).Read'] = th_read


XOF_MAX_READS = {'n': 3}


class TupleHashXOF:
    """TupleHashXOF128 stub: output stream = UF(customization, tuple of written strings, block counter)"""

    def __init__(self, cust, log=None):
        self.cust = cust
        self.tuple = []
        self.reads = 0
        self.log = log
        self.max_reads = XOF_MAX_READS['n']      # stated bound: at most 3 candidate draws per signature (further draws are outside the bound)

    def go_has(self, mn):
        return mn in ('Write', 'Read')

    def go_invoke(self, m, mn, args):
        if mn == 'Write':
            if self.reads:
                raise X.GoPanic("tuplehash: write after read")
            el = m.slice_elems(args[0])
            self.tuple.append(el)
            return (len(el), None)
        if mn == 'Read':
            b = concretize_slice(m, args[0])
            n = b.len
            if self.reads >= self.max_reads:
                raise X.UnwindExceeded("more than %d draws from the XOF" % self.max_reads)
            # encode the tuple unambiguously: lengths are part of the UF name, contents its arguments
            shape = '_'.join(str(len(t)) for t in self.tuple)
            name = 'tuplehashxof128_c%d_t%s_blk%d_out%d' % (len(self.cust), shape, self.reads, n)
            argbytes = self.cust + [x for t in self.tuple for x in t]
            t = tm.uf(name, [tm.lift(cat_bytes(argbytes), 8 * len(argbytes))] if argbytes else [], 8 * n)
            for i, v in enumerate(bytes_of_term(t, n)):
                m.store(_elem_ptr(b, i), v)
            self.reads += 1
            return (n, None)
        raise X.Unsupported("tuplehash stub method " + mn)


class ScriptedReader:
    """io.Reader over a byte stream with a chunking policy and an optional failure point.
    chunk: max bytes returned per Read; fail_at: absolute stream offset at which Read fails
    (returning the bytes before it first, error with n=0 afterwards, or together with data if with_data)."""

    def __init__(self, stream, chunk=None, fail_at=None, with_data=False, name='reader'):
        self.stream = stream
        self.pos = 0
        self.chunk = chunk
        self.fail_at = fail_at
        self.with_data = with_data
        self.calls = []
        self.err = None
        self.name = name

    def go_has(self, mn):
        return mn == 'Read'

    def go_invoke(self, m, mn, args):
        if mn != 'Read':
            raise X.Unsupported("reader method " + mn)
        b = concretize_slice(m, args[0])
        want = b.len
        if self.chunk is not None:
            want = min(want, self.chunk)
        limit = len(self.stream) if self.fail_at is None else self.fail_at
        avail = max(0, limit - self.pos)
        n = min(want, avail)
        for i in range(n):
            m.store(_elem_ptr(b, i), self.stream[self.pos + i])
        self.pos += n
        self.calls.append((b.len, n))
        failing = self.pos >= limit and (n < want or n == 0) if self.fail_at is not None or self.pos >= len(self.stream) else False
        if self.fail_at is not None and self.pos >= self.fail_at and (n == 0 or self.with_data):
            if self.err is None:
                self.err = make_error(m, 'scripted reader failure')
            return (n, self.err)
        if n == 0 and b.len > 0:
            if self.err is None:
                self.err = make_error(m, 'scripted reader exhausted')
            return (0, self.err)
        return (n, None)


def reader_iface(r):
    return X.Iface('stub.' + r.name, r)


HASH_SIZES = {1: 16, 2: 16, 3: 20, 4: 28, 5: 32, 6: 48, 7: 64, 8: 36, 9: 20, 10: 28, 11: 32, 12: 48, 13: 64, 14: 28, 15: 32,
              16: 32, 17: 48, 18: 64, 19: 64}


def install_crypto_hash(m):
    """crypto.Hash.Size(): documented digest sizes of the registered identifiers; others panic (as the stdlib does)"""
    def size(m, a):
        h = a[0]
        if isinstance(h, tm.T):
            h = m.ctx.concretize(h, 64, 'crypto.Hash')
        if h in HASH_SIZES:
            return HASH_SIZES[h]
        raise X.GoPanic("crypto: Size of unknown hash function")
    m.contracts['(crypto.Hash).Size'] = size
    m.contracts['(crypto.Hash).HashFunc'] = lambda m, a: a[0]


STUB_NOTES = [
    'sha256 / hmac-sha256 / TupleHashXOF128: deterministic uninterpreted functions of the exact byte string(s) written (one symbol per total length)',
    'io.Reader arguments: scripted readers (symbolic data, chunking, failure point); io.ReadFull/ReadAtLeast executed from their real SSA',
    'crypto.Hash.Size: documented digest sizes of the registered identifiers',
]


class BigBytes:
    """payload of a math/big.Int stub: the magnitude as a big-endian byte list (possibly symbolic, leading zeros allowed)"""
    __slots__ = ('b',)

    def __init__(self, b):
        self.b = list(b)


def install_bigint(m):
    """math/big.Int restricted to what BuildASN1Signature uses (SetBytes, Sign, Bytes, BitLen): unsigned big-endian value"""
    def payload(p):
        t = m.load(p)
        v = t[1] if isinstance(t, (list, tuple)) else t
        return v.b if isinstance(v, BigBytes) else []

    def c_setbytes(m, a):
        m.store(a[0], [False, BigBytes(m.slice_elems(a[1]))])
        return a[0]

    def strip(p):
        b = payload(p)
        i = 0
        while i < len(b) and m.ctx.branch(tm.eq(b[i], 0, 8)):
            i += 1
        return b[i:]

    def c_sign(m, a):
        return 1 if strip(a[0]) else 0

    def c_bytes(m, a):
        return m.new_byte_slice(strip(a[0]), 'big.Int.Bytes')

    def c_bitlen(m, a):
        b = strip(a[0])
        if not b:
            return 0
        top = b[0]
        n = 8
        if isinstance(top, tm.T):
            k = m.ctx.concretize(tm.bv('sub', 8, tm.trunc(__import__('engine.builtins_go', fromlist=['_clz'])._clz(top, 8), 8), 8), 8, 'bitlen')
        else:
            k = top.bit_length()
        return 8 * (len(b) - 1) + k
    m.contracts['(*math/big.Int).SetBytes'] = c_setbytes
    m.contracts['(*math/big.Int).Sign'] = c_sign
    m.contracts['(*math/big.Int).Bytes'] = c_bytes
    m.contracts['(*math/big.Int).BitLen'] = c_bitlen
