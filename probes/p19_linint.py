import sys, time, re
sys.path.insert(0,'/tmp/probe')
from fiatpy import *
from z3 import *
which=sys.argv[1]
path = {'field':'/repo/internal/fiat/secp256k1montgomery/secp256k1montgomery.go','scalar':'/repo/internal/fiat/secp256k1montgomeryscalar/secp256k1montgomeryscalar.go'}[which]
P = {'field':2**256-2**32-977,'scalar':0xFFFFFFFFFFFFFFFFFFFFFFFFFFFFFFFEBAAEDCE6AF48A03BBFD25E8CD0364141}[which]
F=load(path); W=2**64
for fn in ['Add','Sub','Opp']:
    s=Solver(); cnt=[0]
    def fresh(n): cnt[0]+=1; return Int(f'{n}{cnt[0]}')
    class bits:
        @staticmethod
        def Add64(x,y,c):
            t=x+y+c; sm=fresh('s'); cr=fresh('c'); s.add(t==cr*W+sm,sm>=0,sm<W,cr>=0,cr<=1); return sm,cr
        @staticmethod
        def Sub64(x,y,b):
            t=x-y-b; d=fresh('d'); br=fresh('b'); s.add(t==d-br*W,d>=0,d<W,br>=0,br<=1); return d,br
    def mask(x,c): return If(x==0,0,c)
    env=dict(bits=bits,uint64=lambda x:x,uint1=lambda x:x,cmovznzU64=lambda c,a,b: If(c==0,a,b),mask=mask)
    pn,lines=F[fn]
    lines=[re.sub(r'\((\w+) & (0x[0-9a-f]+)\)',r'mask(\1, \2)',l) for l in lines]
    F[fn]=(pn,lines)
    a=[Int(f'a{i}') for i in range(4)]; b=[Int(f'b{i}') for i in range(4)]
    for v in a+b: s.add(v>=0,v<W)
    A=sum(a[i]*W**i for i in range(4)); B=sum(b[i]*W**i for i in range(4)); s.add(A<P,B<P)
    out=[None]*4
    run(F,fn,env,[out,a,b] if fn!='Opp' else [out,a])
    O=sum(out[i]*W**i for i in range(4))
    spec={'Add':If(A+B>=P,A+B-P,A+B),'Sub':If(A<B,A+P-B,A-B),'Opp':If(A==0,0,P-A)}[fn]
    s.add(O!=spec)
    t=time.time(); print(which,fn,s.check(),time.time()-t)
