from z3 import *
import time
p=2**256-2**32-977
a,b,c=Ints('a b c')
s=Solver(); s.add(a>=0,a<2**192,b>=0,b<2**192,c>=0,c<2**128)
c192=2**192%p; c384=2**384%p
fe=(a+(b*c192)%p)%p
fe=(fe+(c*c384)%p)%p
spec=(a+b*2**192+c*2**384)%p
s.add(fe!=spec)
t=time.time(); print(s.check(),time.time()-t)
# RecoverPoint-like: x=r+n (mod p) ; didReduce = x>=n ; sc = x mod n ; accept iff didReduce==1 and sc==r  <=> r+n<p
n=0xFFFFFFFFFFFFFFFFFFFFFFFFFFFFFFFEBAAEDCE6AF48A03BBFD25E8CD0364141
r=Int('r'); s=Solver(); s.add(r>=0,r<n)
x=(r+n)%p
did=If(x>=n,1,0); sc=x%n
acc=And(did==1,sc==r)
s.add(acc!=(r+n<p))
t=time.time(); print(s.check(),time.time()-t)
