import sys, time, os, re
sys.path.insert(0,'/tmp/probe')
from fiatpy import *
from z3 import *
which=sys.argv[1]
path = {'field':'/repo/internal/fiat/secp256k1montgomery/secp256k1montgomery.go','scalar':'/repo/internal/fiat/secp256k1montgomeryscalar/secp256k1montgomeryscalar.go'}[which]
P = {'field':2**256-2**32-977,'scalar':0xFFFFFFFFFFFFFFFFFFFFFFFFFFFFFFFEBAAEDCE6AF48A03BBFD25E8CD0364141}[which]
F=load(path); W=2**64
def bv(x,w=64): return BitVecVal(x,w) if isinstance(x,int) else x
class bits:
    @staticmethod
    def Add64(x,y,c):
        t=ZeroExt(2,bv(x))+ZeroExt(2,bv(y))+ZeroExt(2,bv(c)); return Extract(63,0,t),ZeroExt(63,Extract(64,64,t))
    @staticmethod
    def Sub64(x,y,b):
        t=ZeroExt(2,bv(x))-ZeroExt(2,bv(y))-ZeroExt(2,bv(b)); return Extract(63,0,t),ZeroExt(63,Extract(65,65,t))
def uint64(x): return bv(x)
def uint1(x): return bv(x)
def cmovznzU64(c,a,b):
    x1=bv(c)*BitVecVal(W-1,64); return (x1&bv(b))|(~x1&bv(a))
env=dict(bits=bits,uint64=uint64,uint1=uint1,cmovznzU64=cmovznzU64)
a=[BitVec(f'a{i}',64) for i in range(4)]; b=[BitVec(f'b{i}',64) for i in range(4)]
def cat(l): return Concat(*reversed(l))
A=ZeroExt(2,cat(a)); B=ZeroExt(2,cat(b)); Pv=BitVecVal(P,258)
for fn in ['Add','Sub','Opp']:
    s=Solver(); s.add(ULT(A,Pv),ULT(B,Pv))
    out=[None]*4
    run(F,fn,env,[out,a,b] if fn!='Opp' else [out,a])
    O=ZeroExt(2,cat(out))
    if fn=='Add': spec=If(UGE(A+B,Pv),A+B-Pv,A+B)
    if fn=='Sub': spec=If(ULT(A,B),A+Pv-B,A-B)
    if fn=='Opp': spec=If(A==0,A,Pv-A)
    s.add(O!=spec)
    t=time.time(); print(which,fn,s.check(),time.time()-t)
