from z3 import *
import time
n=0xFFFFFFFFFFFFFFFFFFFFFFFFFFFFFFFEBAAEDCE6AF48A03BBFD25E8CD0364141
W=2**64
s=Solver(); cnt=[0]
def fresh(p): cnt[0]+=1; return Int(f'{p}{cnt[0]}')
def Mul64(x,y):
    P=x*y; hi=fresh('h'); lo=fresh('l'); s.add(P==hi*W+lo,lo>=0,lo<W,hi>=0,hi<W); return hi,lo
def Add64(x,y,c):
    t=x+y+c; sm=fresh('s'); cr=fresh('c'); s.add(t==cr*W+sm,sm>=0,sm<W,cr>=0,cr<=1); return sm,cr
def wadd(x,y):
    t=x+y; r=fresh('w'); q=fresh('q'); s.add(t==q*W+r,r>=0,r<W,q>=0,q<=1); return r
def inner(c,a,b,u):
    hi,lo=Mul64(a,b)
    lo,carry=Add64(lo,c,0); hi=wadd(hi,carry)
    lo,carry=Add64(lo,u,0); hi=wadd(hi,carry)
    return hi,lo
for gname,g in [('g1',0x3086d221a7d46bcde86c90e49284eb153daa8a1471e8ca7fe893209a45dbb031),('g2',0xe4437ed6010e88286f547fa90abfe4c4221208ac9df506c61571b4ae8ac47f71)]:
    s=Solver(); cnt[0]=0
    a=[Int(f'a{i}') for i in range(4)]
    for v in a: s.add(v>=0,v<W)
    K=sum(a[i]*W**i for i in range(4)); s.add(K<n)
    b=[(g>>(64*i))%W for i in range(4)]
    a0,a1,a2,a3=a; b0,b1,b2,b3=b
    u,_=inner(0,a0,b0,0); u,c1=inner(0,a0,b1,u); u,c2=inner(0,a0,b2,u); c4,c3=inner(0,a0,b3,u)
    u,_=inner(c1,a1,b0,0); u,c2=inner(c2,a1,b1,u); u,c3=inner(c3,a1,b2,u); c5,c4=inner(c4,a1,b3,u)
    u,_=inner(c2,a2,b0,0); u,c3=inner(c3,a2,b1,u); u,c4=inner(c4,a2,b2,u); c6,c5=inner(c5,a2,b3,u)
    u,_=inner(c3,a3,b0,0); u,_=inner(c4,a3,b1,u); u,c5=inner(c5,a3,b2,u); c7,c6=inner(c6,a3,b3,u)
    sh=fresh('sh'); rem=fresh('rm'); s.add(c5==sh*2**63+rem,rem>=0,rem<2**63,sh>=0,sh<=1)
    c6,u=Add64(c6,sh,0); c7=wadd(c7,u)
    res=c6+c7*W
    q=Int('q'); r=Int('r'); s.add(K*g==q*2**384+r,r>=0,r<2**384,q>=0)
    spec=q+If(r>=2**383,1,0)
    s.add(res!=spec)
    t=time.time(); print(gname,s.check(),time.time()-t,'vars',cnt[0])
