from z3 import *
import time
# naive: 64 nibble vars, each lookup as ite-chain of constants; claim sum == value
N=64
nib=[Int(f'n{i}') for i in range(N)]
s=Solver()
for v in nib: s.add(v>=0,v<=15)
def look(x):
    r=IntVal(0)
    for i in range(1,16): r=If(x==i,IntVal(i),r)
    return r
acc=IntVal(0)
for i in range(N): acc=acc*16+look(nib[i])
val=IntVal(0)
for i in range(N): val=val*16+nib[i]
s.add(acc!=val)
t=time.time(); s.set('timeout',120000); print(s.check(),time.time()-t)
