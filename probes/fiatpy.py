# Throwaway probe: transliterate fiat-crypto Go straight-line functions to Python, exec over a pluggable arithmetic.
import re, sys
def load(path):
    src = open(path).read()
    funcs = {}
    for m in re.finditer(r'^func (\w+)\(([^)]*)\) \{\n(.*?)^\}', src, re.S|re.M):
        name, params, body = m.group(1), m.group(2), m.group(3)
        pn = [p.strip().split()[0] for p in params.split(',') if p.strip()]
        lines=[]
        for ln in body.split('\n'):
            s=ln.strip()
            if not s or s.startswith('//') or s.startswith('var '): continue
            s=s.replace(':=','=')
            mm=re.match(r'(\w+)\(&(\w+), (.*)\)$', s)
            if mm: s=f'{mm.group(2)} = {mm.group(1)}({mm.group(3)})'
            lines.append(s)
        funcs[name]=(pn,lines)
    return funcs
def run(funcs, name, env, args):
    pn, lines = funcs[name]
    loc = dict(zip(pn,args))
    code='\n'.join(lines)
    exec(code, env, loc)
    return loc
