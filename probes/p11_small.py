import re, time, sys
from z3 import *
exec(open('/tmp/probe/p10_poly.py').read().split("X1,Y1,Z1,X2,Y2,Z2=Ints")[0])
q=int(sys.argv[1]); w=q.bit_length(); W2=2*w+2
def order(q):
    return 1+sum(1 for x in range(q) for y in range(q) if (y*y-x*x*x-7)%q==0)
print('q',q,'order',order(q))
class M:  # value mod q as BV(w)
    def __init__(s,t): s.t=t
    def __mul__(s,o): o=lift(o); return M(Extract(w-1,0,URem(ZeroExt(W2-w,s.t)*ZeroExt(W2-w,o.t),BitVecVal(q,W2))))
    __rmul__=__mul__
    def __add__(s,o): o=lift(o); return M(Extract(w-1,0,URem(ZeroExt(W2-w,s.t)+ZeroExt(W2-w,o.t),BitVecVal(q,W2))))
    __radd__=__add__
    def __sub__(s,o): o=lift(o); return M(Extract(w-1,0,URem(ZeroExt(W2-w,s.t)+BitVecVal(q,W2)-ZeroExt(W2-w,o.t),BitVecVal(q,W2))))
    def __rsub__(s,o): return lift(o)-s
def lift(o): return o if isinstance(o,M) else M(BitVecVal(o%q,w))
def inv(a):
    r=BitVecVal(0,w)
    for v in range(1,q): r=If(a.t==v,BitVecVal(pow(v,-1,q),w),r)
    return M(r)
vs=[M(BitVec(n,w)) for n in 'X1 Y1 Z1 X2 Y2 Z2'.split()]
X1,Y1,Z1,X2,Y2,Z2=vs
b3=21%q
s=Solver()
for v in vs: s.add(ULT(v.t,q))
def eq(a,b): return lift(a).t==lift(b).t
def valid(X,Y,Z): return Or(And(Z.t!=0, eq(Y*Y*Z, X*X*X+7*Z*Z*Z)), And(Z.t==0,X.t==0,Y.t!=0))
s.add(valid(X1,Y1,Z1),valid(X2,Y2,Z2))
import builtins
def runq(name,p,qq=None):
    env=dict(feB3=FE(lift(b3)))
    for t in 't0 t1 t2 t3 t4 x3 y3 z3'.split(): env[t]=FE()
    env.update(x1=p.x,y1=p.y,z1=p.z,x=p.x,y=p.y,z=p.z,v=Pt())
    if qq: env.update(x2=qq.x,y2=qq.y,z2=qq.z)
    for l in body(name): exec(l,env)
    v=env['v']; return v.x.v,v.y.v,v.z.v
X3,Y3,Z3=runq('addComplete',Pt(X1,Y1,Z1),Pt(X2,Y2,Z2))
# spec
i1=inv(Z1); i2=inv(Z2); x1=X1*i1; y1=Y1*i1; x2=X2*i2; y2=Y2*i2
Pinf=Z1.t==0; Qinf=Z2.t==0
same_x=eq(x1,x2); neg=And(same_x, eq(y1+y2,0))
lam=M(If(same_x,(3*x1*x1*inv(2*y1)).t,((y2-y1)*inv(x2-x1)).t))
x3=lam*lam-x1-x2; y3=lam*(x1-x3)-y1
isinf=lambda : And(Z3.t==0,X3.t==0,Y3.t!=0)
isaff=lambda x,y: And(Z3.t!=0, eq(X3,x*Z3), eq(Y3,y*Z3))
spec=If(Pinf, If(Qinf,isinf(),isaff(x2,y2)), If(Qinf,isaff(x1,y1), If(neg,isinf(),isaff(x3,y3))))
s.add(Not(spec))
t=time.time(); r=s.check(); print(r,time.time()-t)
if r==sat: print(s.model())
