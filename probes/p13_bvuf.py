# BV encoding with UF products + witnesses + wide-BV identity; dump smt2 for cvc5 --solve-bv-as-int
import sys, time, os, re
sys.path.insert(0,'/tmp/probe')
from fiatpy import *
from z3 import *
which=sys.argv[1]; fn=sys.argv[2]
path = {'field':'/repo/internal/fiat/secp256k1montgomery/secp256k1montgomery.go','scalar':'/repo/internal/fiat/secp256k1montgomeryscalar/secp256k1montgomeryscalar.go'}[which]
P = {'field':2**256-2**32-977,'scalar':0xFFFFFFFFFFFFFFFFFFFFFFFFFFFFFFFEBAAEDCE6AF48A03BBFD25E8CD0364141}[which]
F=load(path); W=2**64; MP=(-pow(P,-1,W))%W
mulUF=Function('mul128',BitVecSort(64),BitVecSort(64),BitVecSort(128))
ms=[]; s=Solver(); prods={}
def bv(x,w=64): return BitVecVal(x,w) if isinstance(x,int) else x
class bits:
    @staticmethod
    def Mul64(x,y):
        x=bv(x); y=bv(y)
        if is_bv_value(y) or is_bv_value(x): p=ZeroExt(64,x)*ZeroExt(64,y)
        else:
            p=mulUF(x,y); prods[(x.get_id(),y.get_id())]=p
            s.add(ULE(p,BitVecVal((W-1)**2,128)))
        hi,lo=Extract(127,64,p),Extract(63,0,p)
        if is_bv_value(y) and y.as_long()==MP: ms.append(lo)
        return hi,lo
    @staticmethod
    def Add64(x,y,c):
        t=ZeroExt(2,bv(x))+ZeroExt(2,bv(y))+ZeroExt(2,bv(c)); return Extract(63,0,t),ZeroExt(63,Extract(64,64,t))
    @staticmethod
    def Sub64(x,y,b):
        t=ZeroExt(2,bv(x))-ZeroExt(2,bv(y))-ZeroExt(2,bv(b)); return Extract(63,0,t),ZeroExt(63,Extract(65,65,t))
def uint64(x): return bv(x)
def uint1(x): return bv(x)
def cmovznzU64(c,a,b): return If(bv(c)==0,bv(a),bv(b))
env=dict(bits=bits,uint64=uint64,uint1=uint1,cmovznzU64=cmovznzU64)
a=[BitVec(f'a{i}',64) for i in range(4)]; b=[BitVec(f'b{i}',64) for i in range(4)]
def cat(l): return Concat(*reversed(l))
WW=704
A=cat(a); B=cat(b)
s.add(ULT(A,BitVecVal(P,256)),ULT(B,BitVecVal(P,256)))
out=[None]*4
run(F,fn,env,[out,a,b])
O=ZeroExt(WW-256,cat(out))
AB=BitVecVal(0,WW)
for i in range(4):
    for j in range(4):
        AB=AB+(ZeroExt(WW-128,prods[(a[i].get_id(),b[j].get_id())])<<(64*(i+j)))
M=ZeroExt(WW-256,cat(ms))
Pv=BitVecVal(P,WW)
lhs0=O<<256; lhs1=lhs0+(Pv<<256); rhs=AB+M*Pv
s.add(Not(Or(lhs0==rhs,lhs1==rhs)))
open(f'bvuf_{which}_{fn}.smt2','w').write('(set-logic ALL)\n'+s.to_smt2())
print('written')
