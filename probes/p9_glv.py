from z3 import *
import time
n=0xFFFFFFFFFFFFFFFFFFFFFFFFFFFFFFFEBAAEDCE6AF48A03BBFD25E8CD0364141
lam=n-0xac9c52b33fa3cf1f5ad9e3fd77ed9ba4a880b9fc8ec739c2e0cfc810b51283cf
negb1=0xe4437ed6010e88286f547fa90abfe4c3
negb2=0xfffffffffffffffffffffffffffffffe8a280ac50774346dd765cda83db1562c
g1=0x3086d221a7d46bcde86c90e49284eb153daa8a1471e8ca7fe893209a45dbb031
g2=0xe4437ed6010e88286f547fa90abfe4c4221208ac9df506c61571b4ae8ac47f71
b1=-negb1; b2=n-negb2  # b2 positive small
print(hex(b2), pow(lam,3,n)==1)
# lattice: a1 + b1*lam = 0 mod n, a2 + b2*lam = 0 mod n ; pick small reps
def cent(x): x%=n; return x if x<=n//2 else x-n
a1=cent(-b1*lam); a2=cent(-b2*lam)
print(a1.bit_length(),a2.bit_length(),b1.bit_length(),b2.bit_length(), a1*b2-a2*b1==n or a1*b2-a2*b1==-n, a1*b2-a2*b1)
k=Int('k'); s=Solver(); s.add(k>=0,k<n)
def rnd(x,g):
    pr=x*g
    q=Int('q'+str(g%97)); r=Int('r'+str(g%97))
    s.add(pr==q*2**384+r, r>=0, r<2**384)
    bit=If(r>=2**383,1,0)
    return q+bit
c1=rnd(k,g1); c2=rnd(k,g2)
k2=-c1*b1-c2*b2
k1=k-c1*a1-c2*a2
B=2**128
s.push(); s.add(Or(k2>=B,k2<=-B,k1>=B,k1<=-B)); t=time.time(); print('bound 2^128',s.check(),time.time()-t); s.pop()
for bb in (127,):
  s.push(); s.add(Or(k2>=2**bb,k2<=-2**bb,k1>=2**bb,k1<=-2**bb)); t=time.time(); r=s.check(); print('bound 2^',bb,r,time.time()-t); 
  if r==sat: print(s.model()[k])
  s.pop()
