import re, time
from z3 import *
src=open('/repo/point_projective.go').read()
class FE:
    def __init__(s,v=0): s.v=v
    def Multiply(s,a,b): s.v=a.v*b.v; return s
    def Add(s,a,b): s.v=a.v+b.v; return s
    def Subtract(s,a,b): s.v=a.v-b.v; return s
    def Square(s,a): s.v=a.v*a.v; return s
    def Set(s,a): s.v=a.v; return s
class Pt:
    def __init__(s,x=None,y=None,z=None): s.x=FE(x); s.y=FE(y); s.z=FE(z)
def body(name):
    m=re.search(r'^func \(v \*Point\) %s\(([^)]*)\)[^{]*\{[^\n]*\n(.*?)^\}'%name, src, re.S|re.M)
    lines=[]
    for l in m.group(2).split('\n'):
        l=l.strip()
        if re.match(r'[\w.]+\.(Multiply|Add|Subtract|Square|Set)\(',l): lines.append(l.replace('&',''))
    return lines
X1,Y1,Z1,X2,Y2,Z2=Ints('X1 Y1 Z1 X2 Y2 Z2'); b3=21
def run(name,p,q=None,x2=None,y2=None):
    env=dict(feB3=FE(b3))
    for t in 't0 t1 t2 t3 t4 x3 y3 z3'.split(): env[t]=FE()
    env.update(x1=p.x,y1=p.y,z1=p.z,x=p.x,y=p.y,z=p.z,v=Pt())
    if q: env.update(x2=q.x,y2=q.y,z2=q.z)
    if x2 is not None: env.update(x2=FE(x2),y2=FE(y2))
    for l in body(name): exec(l,env)
    v=env['v']; return v.x.v,v.y.v,v.z.v
def ref(X1,Y1,Z1,X2,Y2,Z2):
    X3=(X1*Y2+X2*Y1)*(Y1*Y2-b3*Z1*Z2)-b3*(Y1*Z2+Y2*Z1)*(X1*Z2+X2*Z1)
    Y3=3*X1*X2*b3*(X1*Z2+X2*Z1)+(Y1*Y2+b3*Z1*Z2)*(Y1*Y2-b3*Z1*Z2)
    Z3=(Y1*Z2+Y2*Z1)*(Y1*Y2+b3*Z1*Z2)+3*X1*X2*(X1*Y2+X2*Y1)
    return X3,Y3,Z3
for name,impl,r in [('addComplete',run('addComplete',Pt(X1,Y1,Z1),Pt(X2,Y2,Z2)),ref(X1,Y1,Z1,X2,Y2,Z2)),
                    ('addMixed',run('addMixed',Pt(X1,Y1,Z1),x2=X2,y2=Y2),ref(X1,Y1,Z1,X2,Y2,1)),
                    ('doubleComplete',run('doubleComplete',Pt(X1,Y1,Z1)),(2*X1*Y1*(Y1*Y1-3*b3*Z1*Z1),(Y1*Y1-3*b3*Z1*Z1)*(Y1*Y1+b3*Z1*Z1)+8*b3*Y1*Y1*Z1*Z1,8*Y1*Y1*Y1*Z1))]:
    s=Solver(); s.add(Or([i!=j for i,j in zip(impl,r)]))
    t=time.time(); print(name,s.check(),time.time()-t)
