import sys, time
sys.path.insert(0,'/tmp/probe')
from fiatpy import *
from z3 import *
which = sys.argv[1] if len(sys.argv)>1 else 'field'
fn = sys.argv[2] if len(sys.argv)>2 else 'Mul'
path = {'field':'/repo/internal/fiat/secp256k1montgomery/secp256k1montgomery.go','scalar':'/repo/internal/fiat/secp256k1montgomeryscalar/secp256k1montgomeryscalar.go'}[which]
P = {'field':2**256-2**32-977,'scalar':0xFFFFFFFFFFFFFFFFFFFFFFFFFFFFFFFEBAAEDCE6AF48A03BBFD25E8CD0364141}[which]
F = load(path)
W = 2**64
s = Solver()
prods = {}
ms=[]
MP=(-pow(P,-1,2**64))%2**64
cnt=[0]
def fresh(n):
    cnt[0]+=1
    return Int(f'{n}{cnt[0]}')
def isconst(x): return isinstance(x,int) or is_int_value(x)
def val(x): return x if isinstance(x,int) else x.as_long()
class bits:
    @staticmethod
    def Mul64(x,y):
        if isconst(x) and isconst(y):
            p=val(x)*val(y); return IntVal(p//W), IntVal(p%W)
        if isconst(x) or isconst(y):
            Pr = x*y
        else:
            key=(x.get_id(),y.get_id())
            if key not in prods:
                v=fresh('prod'); prods[key]=(v,x,y)
                s.add(v>=0, v<=(W-1)*(W-1))
            Pr=prods[key][0]
        hi=fresh('hi'); lo=fresh('lo')
        if isconst(y) and val(y)==MP: ms.append(lo)
        s.add(Pr==hi*W+lo, lo>=0, lo<W, hi>=0, hi<W)
        return hi,lo
    @staticmethod
    def Add64(x,y,c):
        t=x+y+c
        sm=fresh('s'); cr=fresh('c')
        s.add(t==cr*W+sm, sm>=0, sm<W, cr>=0, cr<=1)
        return sm,cr
    @staticmethod
    def Sub64(x,y,b):
        t=x-y-b
        d=fresh('d'); br=fresh('b')
        s.add(t==d-br*W, d>=0, d<W, br>=0, br<=1)
        return d,br
def uint64(x): return x
def uint1(x): return x
def cmovznzU64(c,a,b): return If(c==0,a,b)
class WAdd:  # wrapping add appears as python + on z3 Ints: need wrap. handled by AST rewrite? simpler: detect in lines
    pass
env=dict(bits=bits,uint64=uint64,uint1=uint1,cmovznzU64=cmovznzU64)
# wrapping '+' in statements like x19 = (uint64(uint1(x18)) + x6): rewrite to wadd()
def wadd(a,b):
    t=a+b
    r=fresh('w'); q=fresh('q')
    s.add(t==q*W+r, r>=0,r<W,q>=0,q<=1)
    return r
env['wadd']=wadd
import os
LEMMA=os.environ.get('LEMMA','1')=='1'
def add64_discard(x,y,c):
    sm,cr=bits.Add64(x,y,c)
    s.add(sm==0)   # lemma proven separately in BV mode
    return cr
env['add64_discard']=add64_discard
pn,lines=F[fn]
import re
nl=[]
for l in lines:
    m=re.match(r'(\w+) = \((.+) \+ (\w+)\)$', l)
    if m: l=f'{m.group(1)} = wadd({m.group(2)}, {m.group(3)})'
    m=re.match(r'_, (\w+) = bits.Add64\((.*)\)$', l)
    if m and LEMMA: l=f'{m.group(1)} = add64_discard({m.group(2)})'
    nl.append(l)
F[fn]=(pn,nl)
a=[Int(f'a{i}') for i in range(4)]; b=[Int(f'b{i}') for i in range(4)]
for v in a+b: s.add(v>=0,v<W)
A=sum(a[i]*W**i for i in range(4)); B=sum(b[i]*W**i for i in range(4))
s.add(A<P,B<P)
out=[None]*4
if fn=='Mul': loc=run(F,fn,env,[out,a,b])
elif fn=='Square': loc=run(F,fn,env,[out,a]); 
O=sum(out[i]*W**i for i in range(4))
# product term from opaque prods
def prodterm(x,y):
    return prods[(x.get_id(),y.get_id())][0]
if fn=='Mul':
    AB=sum(prodterm(a[i],b[j])*W**(i+j) for i in range(4) for j in range(4))
    # monotonic row lemma: a_i * B < W*P  (true of real mult since B<P)
    for i in range(4):
        s.add(sum(prodterm(a[i],b[j])*W**j for j in range(4)) <= (W-1)*(P-1))
else:
    AB=sum(prodterm(a[i],a[j])*W**(i+j) for i in range(4) for j in range(4))
    for i in range(4):
        s.add(sum(prodterm(a[i],a[j])*W**j for j in range(4)) <= (W-1)*(P-1))
print('prods',len(prods),'vars',cnt[0])
goal = sys.argv[3] if len(sys.argv)>3 else 'both'
R=2**256
if goal=='range': s.add(Not(O<P))
elif goal=='cong': s.add((O*R-AB)%P!=0)
elif goal=='wit':
    print('witnesses',len(ms))
    M=sum(ms[i]*W**i for i in range(len(ms)))
    s.add(Not(Or(O*R==AB+M*P, O*R+P*R==AB+M*P)))
else: s.add(Or(Not(O<P),(O*R-AB)%P!=0))
open(f'/tmp/probe/{which}_{fn}_{goal}.smt2','w').write(s.to_smt2())
t=time.time()
s.set('timeout',120000)
print(s.check(), time.time()-t)
