from z3 import *
import time, sys
n=0xFFFFFFFFFFFFFFFFFFFFFFFFFFFFFFFEBAAEDCE6AF48A03BBFD25E8CD0364141
W=2**64; mut=sys.argv[1] if len(sys.argv)>1 else ''
def bv(x): return BitVecVal(x,64) if isinstance(x,int) else x
def Mul64(x,y):
    p=ZeroExt(64,bv(x))*ZeroExt(64,bv(y)); return Extract(127,64,p),Extract(63,0,p)
def Add64(x,y,c):
    t=ZeroExt(1,bv(x))+ZeroExt(1,bv(y))+ZeroExt(1,bv(c)); return Extract(63,0,t),ZeroExt(63,Extract(64,64,t))
def inner(c,a,b,u):
    hi,lo=Mul64(a,b)
    lo,carry=Add64(lo,c,0); hi=hi+carry
    lo,carry=Add64(lo,u,0)
    if mut!='dropcarry': hi=hi+carry
    return hi,lo
for gname,g in [('g1',0x3086d221a7d46bcde86c90e49284eb153daa8a1471e8ca7fe893209a45dbb031)]:
    s=Solver()
    a=[BitVec(f'a{i}',64) for i in range(4)]
    K=Concat(a[3],a[2],a[1],a[0]); s.add(ULT(K,BitVecVal(n,256)))
    b=[(g>>(64*i))%W for i in range(4)]
    a0,a1,a2,a3=a; b0,b1,b2,b3=b
    u,_=inner(0,a0,b0,0); u,c1=inner(0,a0,b1,u); u,c2=inner(0,a0,b2,u); c4,c3=inner(0,a0,b3,u)
    u,_=inner(c1,a1,b0,0); u,c2=inner(c2,a1,b1,u); u,c3=inner(c3,a1,b2,u); c5,c4=inner(c4,a1,b3,u)
    u,_=inner(c2,a2,b0,0); u,c3=inner(c3,a2,b1,u); u,c4=inner(c4,a2,b2,u); c6,c5=inner(c5,a2,b3,u)
    u,_=inner(c3,a3,b0,0); u,_=inner(c4,a3,b1,u); u,c5=inner(c5,a3,b2,u); c7,c6=inner(c6,a3,b3,u)
    sh=LShR(c5,63)&1
    if mut=='noround': sh=BitVecVal(0,64)
    c6,u=Add64(c6,sh,0); c7=c7+u
    res=Concat(c7,c6)
    pr=ZeroExt(256,K)*BitVecVal(g,512)
    spec=Extract(511,384,pr)+ZeroExt(127,Extract(383,383,pr))
    s.add(res!=spec)
    s.set('timeout',300000)
    t=time.time(); r_=s.check(); print(mut,gname,r_,time.time()-t)
    if r_==sat: print(hex(s.model().eval(K).as_long()))
