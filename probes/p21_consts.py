p=2**256-2**32-977
n=0xFFFFFFFFFFFFFFFFFFFFFFFFFFFFFFFEBAAEDCE6AF48A03BBFD25E8CD0364141
Gx=0x79be667ef9dcbbac55a06295ce870b07029bfcdb2dce28d959f2815b16f81798
Gy=0x483ada7726a3c4655da4fbfc0e1108a8fd17b448a68554199c47d08ffb10d4b8
def add(P,Q):
    if P is None: return Q
    if Q is None: return P
    x1,y1=P;x2,y2=Q
    if x1==x2 and (y1+y2)%p==0: return None
    l=(3*x1*x1*pow(2*y1,-1,p))%p if P==Q else ((y2-y1)*pow(x2-x1,-1,p))%p
    x3=(l*l-x1-x2)%p; return (x3,(l*(x1-x3)-y1)%p)
def mul(k,P):
    R=None
    while k:
        if k&1: R=add(R,P)
        P=add(P,P); k>>=1
    return R
G=(Gx,Gy)
lam=n-0xac9c52b33fa3cf1f5ad9e3fd77ed9ba4a880b9fc8ec739c2e0cfc810b51283cf
beta=0x7ae96a2b657c07106e64479eac3434e99cf0497512f58995c1396c28719501ee
print('lam*G==(beta*Gx,Gy):', mul(lam,G)==((beta*Gx)%p,Gy), 'n*G==O', mul(n,G) is None)
b1=-0xe4437ed6010e88286f547fa90abfe4c3; b2=n-0xfffffffffffffffffffffffffffffffe8a280ac50774346dd765cda83db1562c
g1=0x3086d221a7d46bcde86c90e49284eb153daa8a1471e8ca7fe893209a45dbb031
g2=0xe4437ed6010e88286f547fa90abfe4c4221208ac9df506c61571b4ae8ac47f71
rnd=lambda a,b:(2*a+b)//(2*b)
print('g1==round(2^384*b2/n)',g1==rnd(2**384*b2,n),'g2==round(2^384*(-b1)/n)',g2==rnd(2**384*(-b1),n))
half=[0xdfe92f46681b20a0,0x5d576e7357a4501d,0xffffffffffffffff,0x7fffffffffffffff]
print('halfN', sum(h<<(64*i) for i,h in enumerate(half))==(n-1)//2)
# tables
data=open('/repo/internal/gentable/point_mul_table.bin','rb').read()
print(len(data))
import random
ok=True
base=G
for i in range(32):
    for j in (0,1,14,15,31,254):
        off=(i*255+j)*64
        x=int.from_bytes(data[off:off+32],'big'); y=int.from_bytes(data[off+32:off+64],'big')
        if (x,y)!=mul((j+1)*256**i,G): ok=False; print('bad',i,j)
print('table samples ok',ok)
# isogeny constants: check iso_map(E') subset E at random x'
A=0x3f8731abdd661adca08a5558f0f5d272e953d363cb6f0e5d405447c01a444533; B=1771
k=dict(k10=0x8e38e38e38e38e38e38e38e38e38e38e38e38e38e38e38e38e38e38daaaaa8c7,k11=0x7d3d4c80bc321d5b9f315cea7fd44c5d595d2fc0bf63b92dfff1044f17c6581,k12=0x534c328d23f234e6e2a413deca25caece4506144037c40314ecbd0b53d9dd262,k13=0x8e38e38e38e38e38e38e38e38e38e38e38e38e38e38e38e38e38e38daaaaa88c,
k20=0xd35771193d94918a9ca34ccbb7b640dd86cd409542f8487d9fe6b745781eb49b,k21=0xedadc6f64383dc1df7c4b2d51b54225406d36b641f5e41bbc52a56612a8c6d14,
k30=0x4bda12f684bda12f684bda12f684bda12f684bda12f684bda12f684b8e38e23c,k31=0xc75e0c32d5cb7c0fa9d0a54b12a0a6d5647ab046d686da6fdffc90fc201d71a3,k32=0x29a6194691f91a73715209ef6512e576722830a201be2018a765e85a9ecee931,k33=0x2f684bda12f684bda12f684bda12f684bda12f684bda12f684bda12f38e38d84,
k40=0xfffffffffffffffffffffffffffffffffffffffffffffffffffffffefffff93b,k41=0x7a06534bb8bdb49fd5e9e6632722c2989467c1bfc8e8d978dfb425d2685c2573,k42=0x6484aa716545ca2cf3a70c3fa8fe337e0a3d21162f0d6299a7bf8192bfd2a76f)
cnt=0;good=0
random.seed(1)
while cnt<20:
    x=random.randrange(p); yy=(x**3+A*x+B)%p
    if pow(yy,(p-1)//2,p)!=1: continue
    y=pow(yy,(p+1)//4,p); cnt+=1
    xn=(k['k13']*x**3+k['k12']*x*x+k['k11']*x+k['k10'])%p; xd=(x*x+k['k21']*x+k['k20'])%p
    yn=(k['k33']*x**3+k['k32']*x*x+k['k31']*x+k['k30'])%p; yd=(x**3+k['k42']*x*x+k['k41']*x+k['k40'])%p
    X=xn*pow(xd,-1,p)%p; Y=y*yn*pow(yd,-1,p)%p
    good+= (Y*Y-X**3-7)%p==0
print('iso maps E\'->E on samples',good,cnt)
