from z3 import *
import time, sys
p,n=int(sys.argv[1]),int(sys.argv[2])
pts=[(x,y) for x in range(p) for y in range(p) if (y*y-x**3-7)%p==0]
def add(P,Q):
    if P is None: return Q
    if Q is None: return P
    x1,y1=P; x2,y2=Q
    if x1==x2 and (y1+y2)%p==0: return None
    l=(3*x1*x1*pow(2*y1,-1,p))%p if P==Q else ((y2-y1)*pow(x2-x1,-1,p))%p
    x3=(l*l-x1-x2)%p; return (x3,(l*(x1-x3)-y1)%p)
G=pts[0]; mult=[None]; 
for i in range(1,n): mult.append(add(mult[-1],G))
assert add(mult[-1],G) is None
w=16
def tbl(idx,vals,default=0):
    r=BitVecVal(default,w)
    for i,v in enumerate(vals):
        if v is not None: r=If(idx==i,BitVecVal(v,w),r)
    return r
X=lambda k: tbl(k,[None]+[m[0] for m in mult[1:]])
YO=lambda k: tbl(k,[None]+[m[1]&1 for m in mult[1:]])
N=BitVecVal(n,w)
def mulm(a,b): return URem(a*b,N)   # a,b<n<2^8 so no overflow in 16 bits
def addm(a,b): return URem(a+b,N)
def negm(a): return URem(N-a,N)
def inv(a): return tbl(a,[0]+[pow(i,-1,n) for i in range(1,n)])
d,k=BitVecs("d k",w); E=BitVec("E",256); e=Extract(w-1,0,URem(E,BitVecVal(n,256)))
s=Solver(); s.add(ULT(d,N),d!=0,ULT(k,N),k!=0)
xR=X(k); did=If(UGE(xR,N),BitVecVal(1,w),BitVecVal(0,w)); r=URem(xR,N)
s.add(r!=0)
sg=mulm(addm(mulm(r,d),e),inv(k)); s.add(sg!=0)
rec=(did<<1)|YO(k)
neg=If(UGT(sg,BitVecVal((n-1)//2,w)),BitVecVal(1,w),BitVecVal(0,w))
sg2=If(neg==1,negm(sg),sg); rec2=rec^neg
# verify
si=inv(sg2); u1=mulm(e,si); u2=mulm(r,si); Rp=addm(u1,mulm(u2,d))
ver=And(Rp!=0, URem(X(Rp),N)==r)
# recover with id rec2
def recover(rid):
    x=r+((rid>>1)&1)*N
    okx=ULT(x,BitVecVal(p,w))
    # lift: find k' with X[k']==x and parity
    found=BoolVal(False); kk=BitVecVal(0,w)
    for i in range(1,n):
        c=And(x==mult[i][0], (rid&1)==(mult[i][1]&1))
        found=Or(found,c); kk=If(c,BitVecVal(i,w),kk)
    Q=mulm(inv(r), addm(mulm(sg2,kk), negm(e)))
    return And(okx,found,Q!=0), Q
ok,Q=recover(rec2)
claims=[ULE(sg2,BitVecVal((n-1)//2,w)), ver, ok, Q==d, ULE(rec2,3)]
for o in range(1,4):
    ok2,Q2=recover(rec2^o)
    claims.append(Not(And(ok2,Q2==d)))
s.add(Not(And(claims)))
t=time.time(); r_=s.check(); print(p,n,r_,time.time()-t)
if r_==sat: print(s.model())
