import re
p=2**256-2**32-977
n=0xFFFFFFFFFFFFFFFFFFFFFFFFFFFFFFFEBAAEDCE6AF48A03BBFD25E8CD0364141
def chain(path, fname, recv):
    src=open(path).read()
    m=re.search(r'func \(z \*\w+\) %s\(x \*\w+\) \*\w+ \{(.*?)\n\}'%fname, src, re.S)
    env={'x':1}
    for l in m.group(1).split('\n'):
        l=l.strip()
        mm=re.match(r'(\w+)\.(Square|Multiply|Pow2k|pow2k)\(([^)]*)\)',l)
        if not mm: continue
        d,op,args=mm.group(1),mm.group(2),[a.strip() for a in mm.group(3).split(',')]
        if op=='Square': env[d]=2*env[args[0]]
        elif op=='Multiply': env[d]=env[args[0]]+env[args[1]]
        else: env[d]=env[args[0]]*2**int(args[1])
    return env['z']
e=chain('/repo/internal/field/field_invert.go','Invert','Element'); print('field Invert', e==p-2)
e=chain('/repo/internal/field/field_sqrt_ratio.go','pow3mod4','Element'); print('pow3mod4', e==(p-3)//4)
e=chain('/repo/scalar_invert.go','Invert','Scalar'); print('scalar Invert', e==n-2)
# sqrt ratio exponent vector: tv1=v^2; tv2=u v; tv1=tv1*tv2 = u v^3; y1=tv1^c1 * tv2 ; tv3 = y1^2 * v
c1=(p-3)//4
u=(c1+1); v=(3*c1+1)      # y1 = u^(c1+1) v^(3c1+1)
tv3=(2*u, 2*v+1)
print('tv3 exps == (1+(p-1)/2, 3(p-1)/2):', tv3==(1+(p-1)//2, 3*(p-1)//2))
print('c2^2==11:', pow(0x31fdf302724013e57ad13fb38f842afeec184f00a74789dd286729c8303c4a59,2,p)==11)
