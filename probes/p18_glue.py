from z3 import *
import time
n=0xFFFFFFFFFFFFFFFFFFFFFFFFFFFFFFFEBAAEDCE6AF48A03BBFD25E8CD0364141
lam=n-0xac9c52b33fa3cf1f5ad9e3fd77ed9ba4a880b9fc8ec739c2e0cfc810b51283cf
k1,k2,s_=Ints('k1 k2 s'); neg1,neg2=Bools('neg1 neg2')
s=Solver(); s.add(k1>=0,k1<n,k2>=0,k2<n, s_>=0,s_<n)
s.add(s_==(k1+lam*k2)%n)       # contract of splitGLV
half=(n-1)//2
s.add(neg1==(k1>half),neg2==(k2>half))
k1p=If(neg1,(n-k1)%n,k1); k2p=If(neg2,(n-k2)%n,k2)
s.add(k1p<2**128,k2p<2**128)   # C04.3
# ladder gives v = k1p*P1 + k2p*P2 with P1 = (neg1?-1:1)P, P2=(neg2?-1:1)*lam*P  => coefficient of P mod n:
coef=(If(neg1,-k1p,k1p)+lam*If(neg2,-k2p,k2p))%n
s.add(coef!=s_)
t=time.time(); s.set('timeout',120000); print(s.check(),time.time()-t)
