# BV-exact differential: fiat Mul (possibly mutated) vs textbook word-by-word Montgomery; SAT => real counterexample
import sys, time, os, re
sys.path.insert(0,'/tmp/probe')
from fiatpy import *
from z3 import *
which=sys.argv[1]; fn=sys.argv[2]
path = {'field':'/repo/internal/fiat/secp256k1montgomery/secp256k1montgomery.go','scalar':'/repo/internal/fiat/secp256k1montgomeryscalar/secp256k1montgomeryscalar.go'}[which]
P = {'field':2**256-2**32-977,'scalar':0xFFFFFFFFFFFFFFFFFFFFFFFFFFFFFFFEBAAEDCE6AF48A03BBFD25E8CD0364141}[which]
F=load(path); W=2**64
def bv(x,w=64): return BitVecVal(x,w) if isinstance(x,int) else x
class bits:
    @staticmethod
    def Mul64(x,y):
        p=ZeroExt(64,bv(x))*ZeroExt(64,bv(y)); return Extract(127,64,p),Extract(63,0,p)
    @staticmethod
    def Add64(x,y,c):
        t=ZeroExt(2,bv(x))+ZeroExt(2,bv(y))+ZeroExt(2,bv(c)); return Extract(63,0,t),ZeroExt(63,Extract(64,64,t))
    @staticmethod
    def Sub64(x,y,b):
        t=ZeroExt(2,bv(x))-ZeroExt(2,bv(y))-ZeroExt(2,bv(b)); return Extract(63,0,t),ZeroExt(63,Extract(65,65,t))
def uint64(x): return bv(x)
def uint1(x): return bv(x)
def cmovznzU64(c,a,b):
    x1=bv(c)*BitVecVal(W-1,64); return (x1&bv(b))|(~x1&bv(a))
env=dict(bits=bits,uint64=uint64,uint1=uint1,cmovznzU64=cmovznzU64)
MUT=os.environ.get('MUT')
if MUT:
    pat,new,occ=MUT.split('|'); occ=int(occ)
    pn,lines=F[fn]; k=0
    for i,l in enumerate(lines):
        if pat in l:
            if k==occ: lines[i]=l.replace(pat,new); print('mutated line',i,l,'->',lines[i]); break
            k+=1
a=[BitVec(f'a{i}',64) for i in range(4)]; b=[BitVec(f'b{i}',64) for i in range(4)]
s=Solver()
def cat(l): return Concat(*reversed(l))
A=cat(a); B=cat(b)
s.add(ULT(A,BitVecVal(P,256)),ULT(B,BitVecVal(P,256)))
out=[None]*4
run(F,fn,env,[out,a,b] if fn=='Mul' else [out,a])
if fn!='Mul': b=a
# reference: T (320+ bits)
MPc=(-pow(P,-1,W))%W
T=BitVecVal(0,384)
for i in range(4):
    row=BitVecVal(0,384)
    for j in range(4):
        row=row+(ZeroExt(256,ZeroExt(64,a[i])*ZeroExt(64,b[j]))<<(64*j))
    T=T+row
    m=Extract(63,0,T)*BitVecVal(MPc,64)
    T=T+ZeroExt(320,m)*BitVecVal(P,384)
    T=LShR(T,64)
ref=If(UGE(T,BitVecVal(P,384)),T-BitVecVal(P,384),T)
s.add(Extract(255,0,ref)!=cat(out))
t=time.time(); s.set('timeout',int(os.environ.get('TO','300'))*1000)
r=s.check(); print(r,time.time()-t)
if r==sat:
    m=s.model(); av=m.eval(A).as_long(); bvv=m.eval(B).as_long()
    print(hex(av),hex(bvv))
    exp=av*bvv*pow(2**256,-1,P)%P
    print('impl',hex(m.eval(cat(out)).as_long()),'\nspec',hex(exp))
