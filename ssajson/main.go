// ssajson: load /repo's current working tree with go/packages (+ optional
// overlay files), build go/ssa and dump the SSA of every function in the
// requested package set as JSON for the Python symbolic executor.
//
// usage: ssajson -dir /repo -tags verif,purego -overlay dir -out ssa.json [pkg patterns...]
package main

import (
	"encoding/json"
	"flag"
	"fmt"
	"go/constant"
	"go/token"
	"go/types"
	"os"
	"path/filepath"
	"sort"
	"strings"

	"golang.org/x/tools/go/packages"
	"golang.org/x/tools/go/ssa"
	"golang.org/x/tools/go/ssa/ssautil"
)

type J = map[string]any

var (
	typeIDs   = map[string]int{}
	typeTable []J
	typeObjs  []types.Type
	sizes     = types.SizesFor("gc", "amd64")
	prog      *ssa.Program
)

func typeID(t types.Type) int {
	if a, ok := t.(*types.Alias); ok {
		return typeID(types.Unalias(a))
	}
	key := types.TypeString(t, nil)
	// disambiguate distinct struct identities with identical strings: fine to share
	if id, ok := typeIDs[key]; ok {
		return id
	}
	id := len(typeTable)
	typeIDs[key] = id
	typeTable = append(typeTable, nil)
	typeObjs = append(typeObjs, t)
	d := J{"s": key}
	switch tt := t.(type) {
	case *types.Basic:
		d["k"] = "basic"
		d["name"] = tt.Name()
		info := tt.Info()
		if info&types.IsInteger != 0 {
			d["int"] = true
			d["signed"] = info&types.IsUnsigned == 0
			if info&types.IsUntyped == 0 {
				d["bits"] = int(sizes.Sizeof(tt)) * 8
			}
		}
		if info&types.IsBoolean != 0 {
			d["bool"] = true
		}
		if info&types.IsString != 0 {
			d["string"] = true
		}
		if tt.Kind() == types.UnsafePointer {
			d["unsafeptr"] = true
		}
	case *types.Pointer:
		d["k"] = "ptr"
		d["elem"] = typeID(tt.Elem())
	case *types.Array:
		d["k"] = "array"
		d["len"] = tt.Len()
		d["elem"] = typeID(tt.Elem())
	case *types.Slice:
		d["k"] = "slice"
		d["elem"] = typeID(tt.Elem())
	case *types.Struct:
		d["k"] = "struct"
		fs := []J{}
		offs := []int64{}
		var fl []*types.Var
		for i := 0; i < tt.NumFields(); i++ {
			fl = append(fl, tt.Field(i))
		}
		func() {
			defer func() { recover() }()
			offs = sizes.Offsetsof(fl)
		}()
		for i := 0; i < tt.NumFields(); i++ {
			f := tt.Field(i)
			fj := J{"name": f.Name(), "t": typeID(f.Type()), "embedded": f.Embedded()}
			if i < len(offs) {
				fj["off"] = offs[i]
			}
			fs = append(fs, fj)
		}
		d["fields"] = fs
	case *types.Named:
		d["k"] = "named"
		d["name"] = key
		d["under"] = typeID(tt.Underlying())
	case *types.Alias:
		return typeID(types.Unalias(tt))
	case *types.Interface:
		d["k"] = "iface"
		ms := []string{}
		for i := 0; i < tt.NumMethods(); i++ {
			ms = append(ms, tt.Method(i).Name())
		}
		d["methods"] = ms
	case *types.Tuple:
		d["k"] = "tuple"
		es := []int{}
		for i := 0; i < tt.Len(); i++ {
			es = append(es, typeID(tt.At(i).Type()))
		}
		d["elems"] = es
	case *types.Signature:
		d["k"] = "func"
		ps := []int{}
		for i := 0; i < tt.Params().Len(); i++ {
			ps = append(ps, typeID(tt.Params().At(i).Type()))
		}
		rs := []int{}
		for i := 0; i < tt.Results().Len(); i++ {
			rs = append(rs, typeID(tt.Results().At(i).Type()))
		}
		d["params"] = ps
		d["results"] = rs
		d["variadic"] = tt.Variadic()
	case *types.Map:
		d["k"] = "map"
		d["key"] = typeID(tt.Key())
		d["elem"] = typeID(tt.Elem())
	case *types.Chan:
		d["k"] = "chan"
	case *types.TypeParam:
		d["k"] = "typeparam"
	default:
		d["k"] = "other"
	}
	func() {
		defer func() { recover() }()
		if _, ok := t.Underlying().(*types.Interface); !ok {
			if _, ok := t.(*types.Tuple); !ok {
				if _, ok := t.(*types.Signature); !ok {
					d["size"] = sizes.Sizeof(t)
				}
			}
		}
	}()
	typeTable[id] = d
	return id
}

func val(v ssa.Value) any {
	if v == nil {
		return nil
	}
	switch x := v.(type) {
	case *ssa.Const:
		c := J{"k": "c", "t": typeID(x.Type())}
		if x.Value == nil {
			c["nil"] = true
		} else {
			switch x.Value.Kind() {
			case constant.Bool:
				c["b"] = constant.BoolVal(x.Value)
			case constant.Int:
				c["i"] = x.Value.ExactString()
			case constant.String:
				c["str"] = constant.StringVal(x.Value)
			case constant.Float:
				c["f"] = x.Value.ExactString()
			default:
				c["other"] = x.Value.ExactString()
			}
		}
		return c
	case *ssa.Global:
		return J{"k": "g", "n": x.String(), "t": typeID(x.Type())}
	case *ssa.Function:
		return J{"k": "f", "n": x.String()}
	case *ssa.Builtin:
		return J{"k": "b", "n": x.Name()}
	default:
		return J{"k": "v", "n": v.Name()}
	}
}

func vals(vs []ssa.Value) []any {
	out := []any{}
	for _, v := range vs {
		out = append(out, val(v))
	}
	return out
}

func callCommon(c *ssa.CallCommon) J {
	j := J{"args": vals(c.Args)}
	if c.IsInvoke() {
		j["invoke"] = c.Method.Name()
		j["recv"] = val(c.Value)
		j["recvt"] = typeID(c.Value.Type())
	} else {
		j["fn"] = val(c.Value)
	}
	j["sig"] = typeID(c.Signature())
	return j
}

func instr(in ssa.Instruction, fset *token.FileSet) J {
	j := J{}
	if v, ok := in.(ssa.Value); ok {
		j["n"] = v.Name()
		j["t"] = typeID(v.Type())
	}
	if p := in.Pos(); p.IsValid() {
		pp := fset.Position(p)
		j["pos"] = fmt.Sprintf("%s:%d", filepath.Base(pp.Filename), pp.Line)
	}
	switch x := in.(type) {
	case *ssa.Alloc:
		j["op"] = "Alloc"
		j["heap"] = x.Heap
		j["et"] = typeID(x.Type().(*types.Pointer).Elem())
		j["comment"] = x.Comment
	case *ssa.BinOp:
		j["op"] = "BinOp"
		j["tok"] = x.Op.String()
		j["x"] = val(x.X)
		j["y"] = val(x.Y)
		j["xt"] = typeID(x.X.Type())
		j["yt"] = typeID(x.Y.Type())
	case *ssa.Call:
		j["op"] = "Call"
		j["call"] = callCommon(&x.Call)
	case *ssa.ChangeInterface:
		j["op"] = "ChangeInterface"
		j["x"] = val(x.X)
	case *ssa.ChangeType:
		j["op"] = "ChangeType"
		j["x"] = val(x.X)
	case *ssa.Convert:
		j["op"] = "Convert"
		j["x"] = val(x.X)
		j["xt"] = typeID(x.X.Type())
	case *ssa.MultiConvert:
		j["op"] = "MultiConvert"
		j["x"] = val(x.X)
		j["xt"] = typeID(x.X.Type())
	case *ssa.DebugRef:
		return nil
	case *ssa.Defer:
		j["op"] = "Defer"
		j["call"] = callCommon(&x.Call)
	case *ssa.Extract:
		j["op"] = "Extract"
		j["x"] = val(x.Tuple)
		j["idx"] = x.Index
	case *ssa.Field:
		j["op"] = "Field"
		j["x"] = val(x.X)
		j["idx"] = x.Field
	case *ssa.FieldAddr:
		j["op"] = "FieldAddr"
		j["x"] = val(x.X)
		j["idx"] = x.Field
	case *ssa.Go:
		j["op"] = "Go"
		j["call"] = callCommon(&x.Call)
	case *ssa.If:
		j["op"] = "If"
		j["x"] = val(x.Cond)
	case *ssa.Index:
		j["op"] = "Index"
		j["x"] = val(x.X)
		j["idx"] = val(x.Index)
		j["idxt"] = typeID(x.Index.Type())
		j["xt"] = typeID(x.X.Type())
	case *ssa.IndexAddr:
		j["op"] = "IndexAddr"
		j["x"] = val(x.X)
		j["idx"] = val(x.Index)
		j["idxt"] = typeID(x.Index.Type())
		j["xt"] = typeID(x.X.Type())
	case *ssa.Jump:
		j["op"] = "Jump"
	case *ssa.Lookup:
		j["op"] = "Lookup"
		j["x"] = val(x.X)
		j["idx"] = val(x.Index)
		j["xt"] = typeID(x.X.Type())
		j["commaok"] = x.CommaOk
	case *ssa.MakeChan:
		j["op"] = "MakeChan"
	case *ssa.MakeClosure:
		j["op"] = "MakeClosure"
		j["fn"] = val(x.Fn)
		j["bindings"] = vals(x.Bindings)
	case *ssa.MakeInterface:
		j["op"] = "MakeInterface"
		j["x"] = val(x.X)
		j["xt"] = typeID(x.X.Type())
	case *ssa.MakeMap:
		j["op"] = "MakeMap"
	case *ssa.MakeSlice:
		j["op"] = "MakeSlice"
		j["len"] = val(x.Len)
		j["cap"] = val(x.Cap)
		j["lent"] = typeID(x.Len.Type())
		j["capt"] = typeID(x.Cap.Type())
	case *ssa.MapUpdate:
		j["op"] = "MapUpdate"
		j["m"] = val(x.Map)
		j["key"] = val(x.Key)
		j["v"] = val(x.Value)
	case *ssa.Next:
		j["op"] = "Next"
		j["x"] = val(x.Iter)
		j["isstring"] = x.IsString
	case *ssa.Panic:
		j["op"] = "Panic"
		j["x"] = val(x.X)
	case *ssa.Phi:
		j["op"] = "Phi"
		j["edges"] = vals(x.Edges)
		j["comment"] = x.Comment
	case *ssa.Range:
		j["op"] = "Range"
		j["x"] = val(x.X)
		j["xt"] = typeID(x.X.Type())
	case *ssa.Return:
		j["op"] = "Return"
		j["results"] = vals(x.Results)
	case *ssa.RunDefers:
		j["op"] = "RunDefers"
	case *ssa.Select:
		j["op"] = "Select"
	case *ssa.Send:
		j["op"] = "Send"
	case *ssa.Slice:
		j["op"] = "Slice"
		j["x"] = val(x.X)
		j["xt"] = typeID(x.X.Type())
		j["lo"] = val(x.Low)
		j["hi"] = val(x.High)
		j["max"] = val(x.Max)
		if x.Low != nil {
			j["lot"] = typeID(x.Low.Type())
		}
		if x.High != nil {
			j["hit"] = typeID(x.High.Type())
		}
		if x.Max != nil {
			j["maxt"] = typeID(x.Max.Type())
		}
	case *ssa.SliceToArrayPointer:
		j["op"] = "SliceToArrayPointer"
		j["x"] = val(x.X)
	case *ssa.Store:
		j["op"] = "Store"
		j["addr"] = val(x.Addr)
		j["v"] = val(x.Val)
		j["vt"] = typeID(x.Val.Type())
	case *ssa.TypeAssert:
		j["op"] = "TypeAssert"
		j["x"] = val(x.X)
		j["at"] = typeID(x.AssertedType)
		j["commaok"] = x.CommaOk
	case *ssa.UnOp:
		j["op"] = "UnOp"
		j["tok"] = x.Op.String()
		j["x"] = val(x.X)
		j["xt"] = typeID(x.X.Type())
		j["commaok"] = x.CommaOk
	default:
		j["op"] = fmt.Sprintf("?%T", in)
	}
	return j
}

func dumpFunc(f *ssa.Function) J {
	j := J{"name": f.String(), "sig": typeID(f.Signature)}
	if f.Pkg != nil {
		j["pkg"] = f.Pkg.Pkg.Path()
	}
	if f.Synthetic != "" {
		j["synthetic"] = f.Synthetic
	}
	ps := []J{}
	for _, p := range f.Params {
		ps = append(ps, J{"n": p.Name(), "t": typeID(p.Type())})
	}
	j["params"] = ps
	fv := []J{}
	for _, p := range f.FreeVars {
		fv = append(fv, J{"n": p.Name(), "t": typeID(p.Type())})
	}
	j["freevars"] = fv
	if f.Blocks == nil {
		j["external"] = true
		return j
	}
	bs := []J{}
	for _, b := range f.Blocks {
		bj := J{"i": b.Index, "comment": b.Comment}
		ins := []J{}
		for _, in := range b.Instrs {
			if ij := instr(in, f.Prog.Fset); ij != nil {
				ins = append(ins, ij)
			}
		}
		bj["instrs"] = ins
		succ := []int{}
		for _, s := range b.Succs {
			succ = append(succ, s.Index)
		}
		bj["succs"] = succ
		preds := []int{}
		for _, s := range b.Preds {
			preds = append(preds, s.Index)
		}
		bj["preds"] = preds
		bs = append(bs, bj)
	}
	j["blocks"] = bs
	if f.Recover != nil {
		j["recover"] = f.Recover.Index
	}
	return j
}

func main() {
	dir := flag.String("dir", "/repo", "module dir")
	tags := flag.String("tags", "verif", "build tags")
	overlayDir := flag.String("overlay", "", "dir whose files <rel/path> are overlaid at <dir>/<rel/path>")
	out := flag.String("out", "ssa.json", "output")
	allow := flag.String("allow", "", "comma separated package path prefixes whose functions are dumped (default: module + std allowlist)")
	flag.Parse()
	pats := flag.Args()
	if len(pats) == 0 {
		pats = []string{"./..."}
	}
	overlay := map[string][]byte{}
	if *overlayDir != "" {
		filepath.Walk(*overlayDir, func(p string, info os.FileInfo, err error) error {
			if err != nil || info.IsDir() || !strings.HasSuffix(p, ".go") {
				return nil
			}
			rel, _ := filepath.Rel(*overlayDir, p)
			b, _ := os.ReadFile(p)
			overlay[filepath.Join(*dir, rel)] = b
			return nil
		})
	}
	cfg := &packages.Config{
		Mode:       packages.LoadAllSyntax,
		Dir:        *dir,
		BuildFlags: []string{"-tags=" + *tags},
		Overlay:    overlay,
		Env:        append(os.Environ(), "GOFLAGS=-mod=mod", "GOPROXY=off", "GOSUMDB=off"),
	}
	pkgs, err := packages.Load(cfg, pats...)
	if err != nil {
		fmt.Fprintln(os.Stderr, "load:", err)
		os.Exit(2)
	}
	if packages.PrintErrors(pkgs) > 0 {
		os.Exit(2)
	}
	var spkgs []*ssa.Package
	prog, spkgs = ssautil.AllPackages(pkgs, ssa.InstantiateGenerics)
	prog.Build()
	_ = spkgs

	allowed := []string{
		"gitlab.com/yawning/secp256k1-voi/...",
		"golang.org/x/crypto/cryptobyte/...",
		"encoding/asn1", "encoding/binary", "io", "bytes", "crypto/subtle",
		"errors", "crypto", "math/bits", "strings", "unicode/utf8",
	}
	if *allow != "" {
		allowed = strings.Split(*allow, ",")
	}
	isAllowed := func(path string) bool {
		for _, a := range allowed {
			if strings.HasSuffix(a, "/...") {
				b := strings.TrimSuffix(a, "/...")
				if path == b || strings.HasPrefix(path, b+"/") {
					return true
				}
			} else if path == a {
				return true
			}
		}
		return false
	}

	funcs := []J{}
	seen := map[string]bool{}
	dumpNewFuncs := func() int {
		var fl []*ssa.Function
		for f := range ssautil.AllFunctions(prog) {
			fl = append(fl, f)
		}
		sort.Slice(fl, func(i, j int) bool { return fl[i].String() < fl[j].String() })
		n := 0
		for _, f := range fl {
			if seen[f.String()] {
				continue
			}
			pkgPath := ""
			if f.Pkg != nil {
				pkgPath = f.Pkg.Pkg.Path()
			} else if f.Object() != nil && f.Object().Pkg() != nil {
				pkgPath = f.Object().Pkg().Path()
			} else if o := f.Origin(); o != nil && o.Pkg != nil {
				pkgPath = o.Pkg.Pkg.Path()
			} else if f.Parent() != nil && f.Parent().Pkg != nil {
				pkgPath = f.Parent().Pkg.Pkg.Path()
			}
			seen[f.String()] = true
			if pkgPath != "" && !isAllowed(pkgPath) {
				continue
			}
			if pkgPath == "" && f.Synthetic == "" {
				continue
			}
			fj := dumpFunc(f)
			fj["pkg"] = pkgPath
			funcs = append(funcs, fj)
			n++
		}
		return n
	}

	methods := J{}
	msDone := map[string]bool{}
	addMS := func(t types.Type) {
		key := types.TypeString(t, nil)
		if msDone[key] {
			return
		}
		msDone[key] = true
		ms := prog.MethodSets.MethodSet(t)
		if ms.Len() == 0 {
			return
		}
		mj := J{}
		for i := 0; i < ms.Len(); i++ {
			sel := ms.At(i)
			fn := prog.MethodValue(sel)
			if fn != nil {
				mj[sel.Obj().Name()] = fn.String()
			}
		}
		methods[key] = mj
	}
	addAllMS := func() {
		for _, t := range prog.RuntimeTypes() {
			func() {
				defer func() { recover() }()
				addMS(t)
			}()
		}
		for i := 0; i < len(typeObjs); i++ { // typeObjs may grow
			t := typeObjs[i]
			if _, ok := t.(*types.Named); ok {
				if _, isIface := t.Underlying().(*types.Interface); isIface {
					continue
				}
				func() {
					defer func() { recover() }()
					addMS(t)
					addMS(types.NewPointer(t))
				}()
			}
		}
	}
	// named types declared in allowed packages
	for _, p := range prog.AllPackages() {
		if !isAllowed(p.Pkg.Path()) {
			continue
		}
		for _, m := range p.Members {
			if tn, ok := m.(*ssa.Type); ok {
				typeID(tn.Type())
			}
		}
	}
	for round := 0; round < 5; round++ {
		addAllMS()
		if dumpNewFuncs() == 0 && round > 0 {
			break
		}
	}
	addAllMS()

	// globals
	globals := []J{}
	for _, p := range prog.AllPackages() {
		if !isAllowed(p.Pkg.Path()) {
			continue
		}
		var names []string
		for n := range p.Members {
			names = append(names, n)
		}
		sort.Strings(names)
		for _, n := range names {
			if g, ok := p.Members[n].(*ssa.Global); ok {
				globals = append(globals, J{"n": g.String(), "pkg": p.Pkg.Path(), "name": n,
					"et": typeID(g.Type().(*types.Pointer).Elem())})
			}
		}
	}

	res := J{"funcs": funcs, "types": typeTable, "globals": globals, "methods": methods}
	fh, err := os.Create(*out)
	if err != nil {
		panic(err)
	}
	enc := json.NewEncoder(fh)
	if err := enc.Encode(res); err != nil {
		panic(err)
	}
	fh.Close()
	fmt.Fprintf(os.Stderr, "ssajson: %d funcs, %d types, %d globals\n", len(funcs), len(typeTable), len(globals))
}
