// Overlay-only native driver used by /verif. Never written into /repo.
package bitcoin

import (
	"encoding/hex"
	"encoding/json"
	"os"
	"testing"
)

type zzCase struct {
	Op string   `json:"op"`
	In []string `json:"in"`
}

type zzResult struct {
	Ok    bool     `json:"ok"`
	Panic string   `json:"panic,omitempty"`
	Out   []string `json:"out,omitempty"`
	Err   string   `json:"err,omitempty"`
}

func zzHex(s string) []byte {
	b, err := hex.DecodeString(s)
	if err != nil {
		panic(err)
	}
	return b
}

func zzRun(c zzCase) (res zzResult) {
	defer func() {
		if r := recover(); r != nil {
			res = zzResult{Panic: "panic"}
		}
	}()
	switch c.Op {
	case "IsValidSignatureEncodingBIP0066":
		return zzResult{Ok: IsValidSignatureEncodingBIP0066(zzHex(c.In[0]))}
	case "NewSchnorrPublicKey":
		k, err := NewSchnorrPublicKey(zzHex(c.In[0]))
		if err != nil {
			return zzResult{Err: err.Error()}
		}
		return zzResult{Ok: true, Out: []string{hex.EncodeToString(k.Bytes())}}
	case "SchnorrVerify":
		k, err := NewSchnorrPublicKey(zzHex(c.In[0]))
		if err != nil {
			return zzResult{Err: err.Error()}
		}
		return zzResult{Ok: k.Verify(zzHex(c.In[1]), zzHex(c.In[2]))}
	}
	return zzResult{Err: "unknown op " + c.Op}
}

func TestZZVerifNative(t *testing.T) {
	b, err := os.ReadFile(os.Getenv("VERIF_NATIVE_IN"))
	if err != nil {
		t.Fatal(err)
	}
	var cases []zzCase
	if err := json.Unmarshal(b, &cases); err != nil {
		t.Fatal(err)
	}
	out := make([]zzResult, len(cases))
	for i, c := range cases {
		out[i] = zzRun(c)
	}
	ob, _ := json.Marshal(out)
	if err := os.WriteFile(os.Getenv("VERIF_NATIVE_OUT"), ob, 0o600); err != nil {
		t.Fatal(err)
	}
}
