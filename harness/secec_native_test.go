// Overlay-only native driver used by /verif to replay solver models and to validate the
// SSA->SMT translator against the real build. Never written into /repo.
package secec

import (
	"encoding/hex"
	"encoding/json"
	"os"
	"testing"
)

type zzCase struct {
	Op string   `json:"op"`
	In []string `json:"in"`
}

type zzResult struct {
	Ok    bool     `json:"ok"`
	Panic string   `json:"panic,omitempty"`
	Out   []string `json:"out,omitempty"`
	Err   string   `json:"err,omitempty"`
}

func zzHex(s string) []byte {
	b, err := hex.DecodeString(s)
	if err != nil {
		panic(err)
	}
	return b
}

func zzRun(c zzCase) (res zzResult) {
	defer func() {
		if r := recover(); r != nil {
			res = zzResult{Panic: "panic"}
		}
	}()
	switch c.Op {
	case "ParseASN1PublicKey":
		k, err := ParseASN1PublicKey(zzHex(c.In[0]))
		if err != nil {
			return zzResult{Err: err.Error()}
		}
		return zzResult{Ok: true, Out: []string{hex.EncodeToString(k.Bytes()), hex.EncodeToString(k.ASN1Bytes())}}
	case "ParseASN1Signature":
		r, s, err := ParseASN1Signature(zzHex(c.In[0]))
		if err != nil {
			return zzResult{Err: err.Error()}
		}
		return zzResult{Ok: true, Out: []string{hex.EncodeToString(r.Bytes()), hex.EncodeToString(s.Bytes()), hex.EncodeToString(BuildASN1Signature(r, s))}}
	case "ParseCompactSignature":
		r, s, err := ParseCompactSignature(zzHex(c.In[0]))
		if err != nil {
			return zzResult{Err: err.Error()}
		}
		return zzResult{Ok: true, Out: []string{hex.EncodeToString(r.Bytes()), hex.EncodeToString(s.Bytes()), hex.EncodeToString(BuildCompactSignature(r, s))}}
	case "ParseCompactRecoverableSignature":
		r, s, v, err := ParseCompactRecoverableSignature(zzHex(c.In[0]))
		if err != nil {
			return zzResult{Err: err.Error()}
		}
		return zzResult{Ok: true, Out: []string{hex.EncodeToString(r.Bytes()), hex.EncodeToString(s.Bytes()), hex.EncodeToString([]byte{v}), hex.EncodeToString(BuildCompactRecoverableSignature(r, s, v))}}
	case "NewPublicKey":
		k, err := NewPublicKey(zzHex(c.In[0]))
		if err != nil {
			return zzResult{Err: err.Error()}
		}
		return zzResult{Ok: true, Out: []string{hex.EncodeToString(k.Bytes()), hex.EncodeToString(k.CompressedBytes())}}
	case "NewPrivateKey":
		k, err := NewPrivateKey(zzHex(c.In[0]))
		if err != nil {
			return zzResult{Err: err.Error()}
		}
		return zzResult{Ok: true, Out: []string{hex.EncodeToString(k.Bytes()), hex.EncodeToString(k.PublicKey().Bytes())}}
	}
	return zzResult{Err: "unknown op " + c.Op}
}

func TestZZVerifNative(t *testing.T) {
	b, err := os.ReadFile(os.Getenv("VERIF_NATIVE_IN"))
	if err != nil {
		t.Fatal(err)
	}
	var cases []zzCase
	if err := json.Unmarshal(b, &cases); err != nil {
		t.Fatal(err)
	}
	out := make([]zzResult, len(cases))
	for i, c := range cases {
		out[i] = zzRun(c)
	}
	ob, _ := json.Marshal(out)
	if err := os.WriteFile(os.Getenv("VERIF_NATIVE_OUT"), ob, 0o600); err != nil {
		t.Fatal(err)
	}
}
